import logging
logging.disable(logging.CRITICAL)
import sys; sys.path.insert(0,'/verif/probes')
import vrt
from vrt import *
vrt.install()
from aws_durable_execution_sdk_python.execution import durable_execution, DurableExecutionInvocationInputWithClient, InitialExecutionState
from aws_durable_execution_sdk_python.lambda_service import Operation, OperationType, OperationStatus, ExecutionDetails

def wf(crash_at: int, a: int, b: int):
    """
    pre: 0 <= crash_at <= 6
    post: _
    """
    be = Backend(); RTI.client = None
    calls = {"A":0,"B":0}
    seen = []
    @durable_execution
    def handler(event, ctx):
        def A(c): calls["A"]+=1; return a
        def B(c): calls["B"]+=1; return b
        x = ctx.step(A, name="A"); seen.append(("A",x))
        y = ctx.step(B, name="B"); seen.append(("B",y))
        return x + y
    execop = Operation("exec", OperationType.EXECUTION, OperationStatus.STARTED, execution_details=ExecutionDetails("{}"))
    out = None
    for inv in range(3):
        be.crash_at = crash_at if inv == 0 else None
        be.calls = 0
        RTI.client = type("C",(),{"token":str(be.token)})()
        class Cl:
            def checkpoint(s, **k):
                RTI.state._checkpointing_stopped.budget -= 1
                r = be.checkpoint(**k); RTI.client.token = r.checkpoint_token; return r
        ops = [execop] + list(be.ops.values())
        ev = DurableExecutionInvocationInputWithClient("arn", str(be.token), InitialExecutionState(ops, ""), Cl())
        try:
            out = handler(ev, None)
        except Crash:
            continue
        break
    return out is not None and out["Status"] == "SUCCEEDED" and calls["A"] <= 2 and calls["B"] <= 2 and out["Result"] is not None

if __name__=='__main__':
    for c in range(0,7): print(c, wf(c, 3, 4))
