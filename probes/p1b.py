"""Probe: real StepOperationExecutor.process over a symbolic checkpoint record."""
import logging
logging.disable(logging.CRITICAL)
import aws_durable_execution_sdk_python.exceptions as _ex
class _T:
    @staticmethod
    def time(): return 1000.0
_ex.time=_T
from typing import Optional
from aws_durable_execution_sdk_python.operation.step import StepOperationExecutor
from aws_durable_execution_sdk_python.config import StepConfig, StepSemantics, Duration
from aws_durable_execution_sdk_python.identifier import OperationIdentifier
from aws_durable_execution_sdk_python.lambda_service import (
    Operation, OperationStatus, OperationType, StepDetails, ErrorObject, OperationAction)
from aws_durable_execution_sdk_python.state import CheckpointedResult, CHECKPOINT_NOT_FOUND
from aws_durable_execution_sdk_python.retries import RetryDecision
from aws_durable_execution_sdk_python.exceptions import SuspendExecution, CallableRuntimeError, StepInterruptedError
from aws_durable_execution_sdk_python.logger import Logger, LogInfo

STATUSES = list(OperationStatus)

class FakeState:
    durable_execution_arn = "arn"
    def __init__(self, op):
        self.op = op
        self.updates = []
    def get_checkpoint_result(self, oid):
        if self.op is None:
            return CHECKPOINT_NOT_FOUND
        return CheckpointedResult.create_from_operation(self.op)
    def create_checkpoint(self, operation_update=None, is_sync=True):
        self.updates.append((operation_update, is_sync))
        u = operation_update
        if u.action is OperationAction.START:
            self.op = Operation("id", OperationType.STEP, OperationStatus.STARTED, step_details=StepDetails(attempt=0))
    def is_replaying(self):
        return False

class NullLogger:
    def debug(self,*a,**k): pass
    info=warning=error=exception=debug

def run(exists: bool, status_idx: int, attempt: int, at_most_once: bool, fails: bool, retry: bool, delay: int):
    """
    pre: 0 <= status_idx < 8
    pre: 0 <= attempt
    pre: 0 <= delay
    post: True
    """
    op = None
    if exists:
        op = Operation("id", OperationType.STEP, STATUSES[status_idx],
                       step_details=StepDetails(attempt=attempt, result='"r"', error=ErrorObject("m","T",None,None)))
    st = FakeState(op)
    calls = []
    def fn(ctx):
        calls.append(1)
        if fails:
            raise ValueError("boom")
        return 5
    seen = []
    def strategy(err, n):
        seen.append(n)
        return RetryDecision(retry, Duration(delay))
    cfg = StepConfig(retry_strategy=strategy,
                     step_semantics=StepSemantics.AT_MOST_ONCE_PER_RETRY if at_most_once else StepSemantics.AT_LEAST_ONCE_PER_RETRY)
    lg = Logger.from_log_info(NullLogger(), LogInfo(st))
    ex = StepOperationExecutor(fn, cfg, st, OperationIdentifier("id", None, "n"), lg)
    outcome = None
    try:
        outcome = ("ret", ex.process())
    except SuspendExecution as e:
        outcome = ("suspend",)
    except CallableRuntimeError as e:
        outcome = ("cre", e.message)
    except StepInterruptedError:
        outcome = ("interrupted",)
    # C01-ish: terminal => not called
    if exists and STATUSES[status_idx] in (OperationStatus.SUCCEEDED, OperationStatus.FAILED):
        assert not calls
        assert not st.updates
    # C12: strategy sees attempt+1
    for n in seen:
        assert n == (attempt + 1 if exists else 1)
    # retry delay >= 1
    for u, sync in st.updates:
        if u.action is OperationAction.RETRY:
            assert u.step_options.next_attempt_delay_seconds >= 1
            assert sync
    return True
