import logging
logging.disable(logging.CRITICAL)
from typing import Optional
from aws_durable_execution_sdk_python.concurrency.models import ExecutionCounters, BatchResult, CompletionReason
from aws_durable_execution_sdk_python.config import CompletionConfig

def consistent(total: int, succ: int, fail: int, min_succ: Optional[int], tol_cnt: Optional[int], tol_pct: Optional[int]):
    """
    pre: 1 <= total <= 6
    pre: 0 <= succ and 0 <= fail and succ + fail <= total
    pre: min_succ is None or 1 <= min_succ <= total
    pre: tol_cnt is None or 0 <= tol_cnt
    pre: tol_pct is None or 0 <= tol_pct <= 100
    post: _
    """
    cfg = CompletionConfig(min_succ, tol_cnt, tol_pct)
    c = ExecutionCounters(total, cfg.min_successful or total, tol_cnt, tol_pct)
    c.success_count = succ; c.failure_count = fail
    if not c.should_complete():
        return True
    reason = BatchResult._get_completion_reason(fail, succ, succ+fail, total, cfg)
    if reason is CompletionReason.ALL_COMPLETED:
        return succ + fail == total
    if reason is CompletionReason.MIN_SUCCESSFUL_REACHED:
        return min_succ is not None and succ >= min_succ
    return fail > 0
