"""Probe: real _collect_checkpoint_batch over stub queues with symbolic sizes/limits."""
import logging
logging.disable(logging.CRITICAL)
import queue as _q
from typing import List
import aws_durable_execution_sdk_python.state as S
from aws_durable_execution_sdk_python.state import ExecutionState, CheckpointBatcherConfig, QueuedOperation

class FQ:
    def __init__(self): self.items=[]
    def put(self, x): self.items.append(x)
    def get_nowait(self):
        if not self.items: raise _q.Empty
        return self.items.pop(0)
    def get(self, timeout=None):
        if not self.items: raise _q.Empty
        return self.items.pop(0)
    def task_done(self): pass
    def empty(self): return not self.items

class Clock:
    def __init__(self): self.t=0
    def time(self):
        self.t += 1
        return self.t
class StopEv:
    def __init__(self): self.n=0; self.limit=50
    def is_set(self):
        self.n+=1
        return self.n>self.limit
    def set(self): self.limit=0

class U:
    def __init__(self, i, size): self.i=i; self.size=size

def run(sizes: List[int], max_bytes: int, max_ops: int):
    """
    pre: 1 <= len(sizes) <= 4
    pre: all(0 <= s for s in sizes)
    pre: max_bytes >= 1
    pre: max_ops >= 1
    post: True
    """
    st = ExecutionState("arn","tok",{},None, CheckpointBatcherConfig(max_bytes, 10, max_ops))
    st._checkpoint_queue = FQ(); st._overflow_queue = FQ()
    st._checkpointing_stopped = StopEv()
    S.time = Clock()
    ExecutionState._calculate_operation_size = staticmethod(lambda q: q.operation_update.size)
    for i,s in enumerate(sizes):
        st._checkpoint_queue.put(QueuedOperation(U(i,s), None))
    delivered = []
    rounds = 0
    while rounds < len(sizes)+1:
        rounds += 1
        st._checkpointing_stopped.n = 0
        b = st._collect_checkpoint_batch()
        if not b: break
        assert len(b) <= max_ops
        tot = sum(q.operation_update.size for q in b)
        assert tot <= max_bytes or len(b) == 1
        delivered.extend(q.operation_update.i for q in b)
    assert delivered == list(range(len(sizes))), (delivered,)
    return True
