"""CrossHair plugin: formatting a symbolic int yields an unconstrained symbolic string (sound over-approx)."""
def _install():
    import itertools
    from crosshair import core
    from crosshair.core import NoTracing
    from crosshair.libimpl import builtinslib as B
    ctr = itertools.count()
    orig = B._format
    def _format(obj, format_spec=""):
        with NoTracing():
            sym = isinstance(obj, (B.SymbolicInt, B.SymbolicFloat))
        if sym:
            with NoTracing():
                return B.LazyIntSymbolicStr(f"fmtstr{next(ctr)}")
        return orig(obj, format_spec)
    core._PATCH_REGISTRATIONS[format] = _format
_install()
