import logging
logging.disable(logging.CRITICAL)
from collections import deque
from typing import List
import aws_durable_execution_sdk_python.threading as T
from aws_durable_execution_sdk_python.exceptions import OrderedLockError

class Blocked(BaseException): pass
class Ev:
    def __init__(self, flag=False): self.flag = flag
    def set(self): self.flag = True
    def is_set(self): return self.flag
    def wait(self, timeout=None):
        if not self.flag: raise Blocked()
        return True
class Lk:
    def __init__(self): self.held=False
    def __enter__(self):
        assert not self.held; self.held=True; return self
    def __exit__(self,*a): self.held=False
T.Event = Ev; T.Lock = Lk

def inv(flags, broken):
    if broken:
        return all(flags)
    return all(f == (i == 0) for i, f in enumerate(flags))

def mk(flags, broken):
    l = T.OrderedLock()
    l._waiters = deque(Ev(f) for f in flags)
    l._is_broken = broken
    if broken: l._exception = ValueError("x")
    return l

def act_acquire(flags: List[bool], broken: bool):
    """
    pre: len(flags) <= 3
    pre: inv(flags, broken)
    post: _
    """
    l = mk(flags, broken); n = len(flags)
    try:
        l.acquire()
        got = "acquired"
    except Blocked:
        got = "blocked"
    except OrderedLockError:
        got = "error"
    new = [e.flag for e in l._waiters]
    if broken:
        return got == "error" and new == flags
    # arrival appended at tail; acquired iff it was the only one
    return inv(new, False) and len(new) == n + 1 and (got == "acquired") == (n == 0) and got != "error"

def act_release(flags: List[bool], broken: bool):
    """
    pre: 1 <= len(flags) <= 3
    pre: inv(flags, broken)
    post: _
    """
    l = mk(flags, broken)
    l.release()
    new = [e.flag for e in l._waiters]
    return inv(new, broken) and len(new) == len(flags) - 1

def act_exit_exc(flags: List[bool]):
    """
    pre: 1 <= len(flags) <= 3
    pre: inv(flags, False)
    post: _
    """
    l = mk(flags, False)
    l.__exit__(ValueError, ValueError("boom"), None)
    new = [e.flag for e in l._waiters]
    return l._is_broken and inv(new, True) and len(new) == len(flags) - 1
