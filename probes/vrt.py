"""Probe virtual runtime: sequentialised threads for the real SDK."""
import queue as _q
import aws_durable_execution_sdk_python.threading as T
import aws_durable_execution_sdk_python.state as S
import aws_durable_execution_sdk_python.execution as X
import aws_durable_execution_sdk_python.exceptions as EXC
from aws_durable_execution_sdk_python.lambda_service import *

class Deadlock(BaseException): pass
class Crash(BaseException): pass

class RT:
    cur = None
    def __init__(self): self.consumer=None; self.state=None; self.now=1000.0
RTI = RT()

class VEvent:
    def __init__(self): self.flag=False
    def set(self): self.flag=True
    def clear(self): self.flag=False
    def is_set(self): return self.flag
    def wait(self, timeout=None):
        n=0
        while not self.flag:
            n+=1
            if timeout is not None: return False
            if not RTI.run_consumer_once() or n>20: raise Deadlock()
        return True
class VLock:
    def __enter__(self): return self
    def __exit__(self,*a): return False
    def acquire(self,*a): return True
    def release(self): pass
class FQ:
    def __init__(self): self.items=[]
    def put(self, x): self.items.append(x)
    def get_nowait(self):
        if not self.items: raise _q.Empty
        return self.items.pop(0)
    def get(self, timeout=None):
        if not self.items: raise _q.Empty
        return self.items.pop(0)
    def task_done(self): pass
    def empty(self): return not self.items
class StopScript:
    """_checkpointing_stopped: lets exactly one batch through per activation."""
    def __init__(self): self.stopped=False; self.budget=0
    def is_set(self): return self.stopped or self.budget<=0
    def set(self): self.stopped=True
class Clock:
    @staticmethod
    def time():
        RTI.now += 0.001
        return RTI.now
class VFuture:
    def __init__(self): self.exc=None; self.val=None
    def result(self, timeout=None):
        if self.exc is not None: raise self.exc
        return self.val
class VPool:
    def __init__(self,*a,**k): pass
    def __enter__(self): return self
    def __exit__(self,*a): return False
    def submit(self, fn, *args):
        f = VFuture()
        if getattr(fn,'__name__','')=='checkpoint_batches_forever':
            RTI.consumer = fn; RTI.state = fn.__self__
            return f
        try: f.val = fn(*args)
        except Crash: raise
        except BaseException as e: f.exc = e
        return f
def run_consumer_once():
    st = RTI.state
    if st is None or st._checkpointing_stopped.stopped or st._checkpointing_failed.is_set(): return False
    if st._checkpoint_queue.empty() and st._overflow_queue.empty(): return False
    st._checkpointing_stopped.budget = 1
    st._current_checkpoint_token = RTI.client.token
    RTI.consumer()
    return True
RTI.run_consumer_once = run_consumer_once

def install():
    T.Event = VEvent; T.Lock = VLock
    S.Lock = VLock
    class _Q: Queue = FQ; Empty = _q.Empty
    S.queue = _Q
    class _Th: Event = StopScript
    S.threading = _Th
    S.time = Clock; EXC.time = Clock
    X.ThreadPoolExecutor = VPool

class Backend:
    """Minimal model of the durable backend for STEP ops."""
    def __init__(self): self.ops={}; self.log=[]; self.token=0; self.calls=0; self.crash_at=None
    def checkpoint(self, durable_execution_arn, checkpoint_token, updates, client_token):
        self.calls += 1
        if self.crash_at is not None and self.calls == self.crash_at: raise Crash()
        assert checkpoint_token == str(self.token), (checkpoint_token, self.token)
        out=[]
        for u in updates:
            self.log.append(u)
            old = self.ops.get(u.operation_id)
            att = old.step_details.attempt if old and old.step_details else 0
            if u.action is OperationAction.START: st=OperationStatus.STARTED
            elif u.action is OperationAction.SUCCEED: st=OperationStatus.SUCCEEDED
            elif u.action is OperationAction.FAIL: st=OperationStatus.FAILED
            elif u.action is OperationAction.RETRY: st=OperationStatus.PENDING; att+=1
            op = Operation(u.operation_id, u.operation_type, st, parent_id=u.parent_id, name=u.name, sub_type=u.sub_type,
                           step_details=StepDetails(attempt=att, result=u.payload, error=u.error))
            self.ops[u.operation_id]=op; out.append(op)
        self.token += 1
        return CheckpointOutput(str(self.token), CheckpointUpdatedExecutionState(out, None))
    def get_execution_state(self, **k): raise AssertionError
