import logging
logging.disable(logging.CRITICAL)
import sys; sys.path.insert(0,'/verif/probes')
from typing import List, Dict, Tuple, Union, Optional
import aws_durable_execution_sdk_python.concurrency.models  # deps first
from lower import load_lowered
SER = load_lowered('aws_durable_execution_sdk_python.serdes')

class JTok(str):
    pass
class JsonModel:
    """json per the documented conversion table, without C code; text is opaque."""
    JSONDecodeError = ValueError
    @staticmethod
    def _proj(o):
        if o is None or isinstance(o, (bool, int, float, str)): return o
        if isinstance(o, (list, tuple)): return [JsonModel._proj(x) for x in o]
        if isinstance(o, dict):
            out = {}
            for k, v in o.items():
                if isinstance(k, str): kk = k
                elif k is True: kk = "true"
                elif k is False: kk = "false"
                elif k is None: kk = "null"
                elif isinstance(k, int): kk = "I" + "?"  # str(k) placeholder, see below
                elif isinstance(k, float): kk = "F?"
                else: raise TypeError("keys must be str, int, float, bool or None")
                out[kk] = JsonModel._proj(v)
            return out
        raise TypeError("not JSON serializable")
    @staticmethod
    def dumps(o, separators=None):
        t = JTok("<json>"); t.val = JsonModel._proj(o); return t
    @staticmethod
    def loads(t):
        return JsonModel._proj(t.val)
SER.json = JsonModel
SD = SER.ExtendedTypeSerDes()

def same(a, b):
    if type(a) is not type(b): return False
    if isinstance(a, (list, tuple)):
        return len(a)==len(b) and all(same(x,y) for x,y in zip(a,b))
    if isinstance(a, dict):
        return len(a)==len(b) and all(k in b and same(a[k],b[k]) for k in a)
    return a == b

def rt_tuple(v: Tuple[int, str, bool, Optional[float]]):
    """
    pre: len(v[1]) <= 2
    post: _
    """
    return same(SD.deserialize(SD.serialize(v)), v)

def rt_dict(v: Dict[Union[int,str], Union[int, Tuple[int,str]]]):
    """
    pre: len(v) <= 2
    post: _
    """
    try:
        s = SD.serialize(v)
    except SER.SerDesError:
        return True
    return same(SD.deserialize(s), v)
