"""Load an SDK module with `match` statements lowered to if/isinstance chains (in memory)."""
import ast, importlib.util, sys, types

class Lower(ast.NodeTransformer):
    n = 0
    def test(self, pat, subj):
        if isinstance(pat, ast.MatchValue):
            return ast.Compare(subj, [ast.Eq()], [pat.value])
        if isinstance(pat, ast.MatchSingleton):
            return ast.Compare(subj, [ast.Is()], [ast.Constant(pat.value)])
        if isinstance(pat, ast.MatchClass) and not pat.patterns and not pat.kwd_patterns:
            return ast.Call(ast.Name('isinstance', ast.Load()), [subj, pat.cls], [])
        if isinstance(pat, ast.MatchOr):
            return ast.BoolOp(ast.Or(), [self.test(p, subj) for p in pat.patterns])
        if isinstance(pat, ast.MatchAs) and pat.pattern is None and pat.name is None:
            return ast.Constant(True)
        raise NotImplementedError(ast.dump(pat))
    def visit_Match(self, node):
        self.generic_visit(node)
        Lower.n += 1
        name = f"_m{Lower.n}"
        assign = ast.Assign([ast.Name(name, ast.Store())], node.subject)
        head = None; cur = None
        for case in node.cases:
            t = self.test(case.pattern, ast.Name(name, ast.Load()))
            if case.guard is not None:
                t = ast.BoolOp(ast.And(), [t, case.guard])
            new = ast.If(t, case.body, [])
            if head is None: head = cur = new
            else: cur.orelse = [new]; cur = new
        out = [ast.copy_location(assign, node), ast.copy_location(head, node)]
        for o in out: ast.fix_missing_locations(o)
        return out

def load_lowered(modname, extra_globals=None):
    spec = importlib.util.find_spec(modname)
    src = open(spec.origin).read()
    tree = Lower().visit(ast.parse(src))
    ast.fix_missing_locations(tree)
    mod = types.ModuleType(modname); mod.__file__ = spec.origin; mod.__package__ = modname.rpartition('.')[0]
    sys.modules[modname] = mod
    code = compile(tree, spec.origin, 'exec')
    if extra_globals: mod.__dict__.update(extra_globals)
    exec(code, mod.__dict__)
    return mod
