import z3, time, sys
L=int(sys.argv[1])
hexd = z3.Union(z3.Range("0","9"), z3.Range("a","f"))
HEX = z3.Loop(hexd, L, L)
DEC = z3.Union(z3.Re("0"), z3.Concat(z3.Range("1","9"), z3.Star(z3.Range("0","9"))))
p1,p2,n1,n2 = z3.Strings("p1 p2 n1 n2"); h1,h2 = z3.Bools("h1 h2")
def q(pre):
    s = z3.Solver(); s.set("timeout", 60000)
    for p,n in ((p1,n1),(p2,n2)):
        s.add(z3.InRe(p, HEX), z3.InRe(n, DEC), z3.Length(n) <= 6)
    s.add(pre(p1,h1,n1) == pre(p2,h2,n2))
    s.add(z3.Or(h1 != h2, z3.And(h1, p1 != p2), n1 != n2))
    t=time.time(); r=s.check(); print(r, round(time.time()-t,2), s.model() if str(r)=='sat' else '')
    print(s.to_smt2()[:0])
q(lambda p,h,n: z3.If(h, z3.Concat(p, z3.StringVal("-"), n), n))
q(lambda p,h,n: z3.If(h, z3.Concat(p, n), n))
