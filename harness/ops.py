"""Runners for the other real operation executors (wait, invoke, callback, child, wait_for_condition)."""
from __future__ import annotations

from harness.common import (
    CALLBACK_STATUSES, CONTEXT_STATUSES, FUTURE_DT, IDENT, INVOKE_STATUSES, OID, PID, WAIT_STATUSES, FakeState, Trace,
    err_obj, mk_logger, run,
)
from aws_durable_execution_sdk_python.config import CallbackConfig, ChildConfig, Duration, InvokeConfig
from aws_durable_execution_sdk_python.context import Callback
from aws_durable_execution_sdk_python.lambda_service import (
    CallbackDetails, ChainedInvokeDetails, ContextDetails, ErrorObject, Operation, OperationSubType, OperationType, WaitDetails,
)
from aws_durable_execution_sdk_python.operation.callback import CallbackOperationExecutor
from aws_durable_execution_sdk_python.operation.child import ChildOperationExecutor
from aws_durable_execution_sdk_python.operation.invoke import InvokeOperationExecutor
from aws_durable_execution_sdk_python.operation.wait import WaitOperationExecutor
from aws_durable_execution_sdk_python.operation.wait_for_condition import WaitForConditionOperationExecutor
from aws_durable_execution_sdk_python.waits import WaitForConditionConfig, WaitForConditionDecision

WAIT_FUNCS = ["operation.wait.WaitOperationExecutor.check_result_status/execute", "operation.base.OperationExecutor.process",
              "suspend.suspend_with_optional_resume_delay", "lambda_service.OperationUpdate.create_wait_start"]
INVOKE_FUNCS = ["operation.invoke.InvokeOperationExecutor.check_result_status/execute", "operation.base.OperationExecutor.process",
                "state.CheckpointedResult.*", "lambda_service.OperationUpdate.create_invoke_start", "serdes.serialize/deserialize"]
CALLBACK_FUNCS = ["operation.callback.CallbackOperationExecutor.check_result_status/execute", "context.Callback.result",
                  "operation.base.OperationExecutor.process", "lambda_service.OperationUpdate.create_callback"]
CHILD_FUNCS = ["operation.child.ChildOperationExecutor.check_result_status/execute", "operation.base.OperationExecutor.process",
               "lambda_service.OperationUpdate.create_context_*", "serdes.serialize/deserialize"]
WFC_FUNCS = ["operation.wait_for_condition.WaitForConditionOperationExecutor.check_result_status/execute",
             "operation.base.OperationExecutor.process", "lambda_service.OperationUpdate.create_wait_for_condition_*",
             "serdes.serialize/deserialize", "suspend.*"]


def wait_record(exists: bool, status_idx: int):
    if not exists:
        return None
    return Operation(OID, OperationType.WAIT, WAIT_STATUSES[status_idx], parent_id=PID, name="nm",
                     sub_type=OperationSubType.WAIT, wait_details=WaitDetails(FUTURE_DT))


def run_wait(rec, seconds: int):
    st = FakeState(rec)
    ex = WaitOperationExecutor(seconds, st, IDENT)
    return run(ex.process, st)


def invoke_record(exists: bool, status_idx: int, payload, has_err: bool, has_details: bool = True):
    if not exists:
        return None
    return Operation(OID, OperationType.CHAINED_INVOKE, INVOKE_STATUSES[status_idx], parent_id=PID, name="nm",
                     sub_type=OperationSubType.CHAINED_INVOKE,
                     chained_invoke_details=ChainedInvokeDetails(result=payload, error=err_obj(has_err, "inv-msg", "InvType")) if has_details else None)


def run_invoke(rec, payload_value, timeout_seconds: int = 0, tenant=None, start_status=None):
    st = FakeState(rec)
    if start_status is not None:
        st.backend.invoke_start_status = start_status
    cfg = InvokeConfig(timeout=Duration(timeout_seconds), tenant_id=tenant)
    ex = InvokeOperationExecutor("fn-name", payload_value, st, IDENT, cfg)
    return run(ex.process, st)


def callback_record(exists: bool, status_idx: int, cbid: str, payload, has_err: bool, err_msg="cb-msg", has_details: bool = True):
    if not exists:
        return None
    return Operation(OID, OperationType.CALLBACK, CALLBACK_STATUSES[status_idx], parent_id=PID, name="nm",
                     sub_type=OperationSubType.CALLBACK,
                     callback_details=CallbackDetails(callback_id=cbid, result=payload, error=(ErrorObject(err_msg, "CbType", None, None) if has_err else None)) if has_details else None)


def run_callback_create(rec, timeout_s: int = 0, hb_s: int = 0, issued_id: str = "cb-issued"):
    st = FakeState(rec)
    st.backend.callback_id = issued_id
    cfg = CallbackConfig(timeout=Duration(timeout_s), heartbeat_timeout=Duration(hb_s))
    ex = CallbackOperationExecutor(st, IDENT, cfg)
    return run(ex.process, st)


def run_callback_result(st, cbid: str, serdes=None):
    cb = Callback(cbid, OID, st, serdes)
    return run(cb.result, st)


def context_record(exists: bool, status_idx: int, payload, has_err: bool, replay_children: bool, has_details: bool = True,
                   sub_type=OperationSubType.RUN_IN_CHILD_CONTEXT):
    if not exists:
        return None
    return Operation(OID, OperationType.CONTEXT, CONTEXT_STATUSES[status_idx], parent_id=PID, name="nm", sub_type=sub_type,
                     context_details=ContextDetails(replay_children=replay_children, result=payload,
                                                    error=err_obj(has_err, "ctx-msg", "CtxType")) if has_details else None)


def run_child(rec, body, config=None, state=None):
    st = state or FakeState(rec)
    tr = Trace()

    def fn():
        tr.calls.append(st.ops.get(OID))
        st.events.append(("ufn",))
        return body()

    ex = ChildOperationExecutor(fn, st, IDENT, config or ChildConfig())
    return run(ex.process, st, tr)


def run_wfc(rec, initial_state, check_fn, decide, serdes=None):
    """decide(new_state, attempt) -> WaitForConditionDecision ; check_fn(state, ctx) -> new_state"""
    st = FakeState(rec)
    tr = Trace()

    def chk(state, ctx):
        tr.calls.append((state, st.ops.get(OID)))
        st.events.append(("ufn",))
        return check_fn(state)

    def strat(new_state, attempt):
        tr.strategy_calls.append((new_state, attempt))
        return decide(new_state, attempt)

    cfg = WaitForConditionConfig(wait_strategy=strat, initial_state=initial_state, serdes=serdes)
    ex = WaitForConditionOperationExecutor(chk, cfg, st, IDENT, mk_logger(st))
    return run(ex.process, st, tr)
