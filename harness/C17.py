"""C17 - the context logger is silent while replaying completed work, audible afterwards.

Composed world (harness/inv.py).  Program (program order positions in brackets):
    [0] log L0 ; [1] step S1 {log inside} ; [2] log L1 ; [3..9] child C { [3] log C0 ; [4] step C1 {log} ; [5] log Ca ; [6] step C2 {log} ; [7] log Cb } ;
    [10] log L2 ; [11] wait W (or callback, solver-chosen) ; [12] log L3 ; [13] step S3 {log} ; [14] log L4
An execution is driven to a solver-chosen interruption (process crash after a solver-chosen API call, or the suspension at W), then re-invoked with
the history split between the invocation payload and later pages at a solver-chosen page size.  Oracle for EVERY log call executed by an invocation:
emitted  <=>  no operation that had completed before this invocation began lies after the call in program order.  Emitted records carry the execution
ARN, and the enclosing operation's ids (parentId inside a child context, operationId inside a step).
"""
from __future__ import annotations

from vk import h
from harness import common  # noqa: F401
from harness.common import TERMINAL
from harness.inv import ASSUMPTIONS_INV, Backend, run_execution
import aws_durable_execution_sdk_python.execution as X
import aws_durable_execution_sdk_python.serdes as SER
from aws_durable_execution_sdk_python.config import Duration, StepConfig
from aws_durable_execution_sdk_python.exceptions import CallableRuntimeError
from aws_durable_execution_sdk_python.retries import RetryDecision

if h.MODE == "sx":
    from vk.jsonmodel import JsonModel

    SER.json = JsonModel
    X.json = JsonModel
    JsonModel.size_of = staticmethod(lambda v: 10)

ASSUMPTIONS = ASSUMPTIONS_INV + [
    "the logger under test is the one installed with DurableContext.set_logger (a capturing LoggerInterface); stdlib logging of the SDK's own modules is disabled",
    "program order of a log call vs. an operation is the static order of the template; an operation 'had completed' iff the backend held it in a terminal status when the invocation began",
]
FUNCS = ["logger.Logger._log/_should_log/with_log_info/from_log_info", "state.ExecutionState.track_replay/is_replaying", "execution.durable_execution.wrapper (initial ReplayStatus)",
         "context.DurableContext.step/wait/run_in_child_context/create_callback/set_logger/create_child_context", "state.ExecutionState.fetch_paginated_operations"]

NO_RETRY = StepConfig(retry_strategy=lambda e, n: RetryDecision.no_retry())


LEVELS = ["debug", "info", "warning", "error", "exception"]


SITE_LEVEL = {"L0": "error", "in-S1": "info", "L1": "warning", "C0": "exception", "in-C1": "debug", "Ca": "error", "in-C2": "warning", "Cb": "info",
              "L2": "exception", "L3": "debug", "in-S3": "error", "L4": "info", "in-F": "warning", "in-S0": "exception"}


def emit(lg, site):
    """each log site uses a fixed level; the sites that get replayed cover all five levels, so every level's path through the context logger is exercised"""
    getattr(lg, SITE_LEVEL.get(site, LEVELS[sum(ord(ch) for ch in site) % 5]))(site)


class Cap:
    """capturing LoggerInterface"""

    def __init__(self):
        self.records = []

    def info(self, msg, *args, extra=None):
        self.records.append((msg, dict(extra or {})))

    debug = warning = error = exception = info


# program-order position of every op name (position at which it COMPLETES) and of every log site
# (x2 so that an operation completes strictly after the log call inside its own body)
OP_POS = {"S1": 3, "C1": 9, "C2": 13, "C": 18, "W": 22, "S3": 27}
LOG_POS = {"L0": 0, "in-S1": 2, "L1": 4, "C0": 6, "in-C1": 8, "Ca": 10, "in-C2": 12, "Cb": 14, "L2": 20, "L3": 24, "in-S3": 26, "L4": 28}


def make_handler(cap, executed, use_callback, s1_fails, s3_retry=False):
    calls = {"S3": 0}
    RETRY_ONCE = StepConfig(retry_strategy=lambda e, n: RetryDecision.retry(Duration(1)) if n < 2 else RetryDecision.no_retry())

    def handler(event, ctx):
        ctx.set_logger(cap)

        def log(lg, site):
            executed.append(site)
            emit(lg, site)

        def stepfn(site, fail=False, fail_first=False):
            def fn(sc):
                log(sc.logger, site)
                if fail:
                    raise ValueError("s1 failed")
                if fail_first:
                    calls["S3"] += 1
                    if calls["S3"] == 1:
                        raise ValueError("transient")
                return 1
            return fn

        log(ctx.logger, "L0")
        try:
            ctx.step(stepfn("in-S1", s1_fails), name="S1", config=NO_RETRY)
        except CallableRuntimeError:
            pass
        log(ctx.logger, "L1")

        def child(c):
            log(c.logger, "C0")
            c.step(stepfn("in-C1"), name="C1")
            log(c.logger, "Ca")
            c.step(stepfn("in-C2"), name="C2")
            log(c.logger, "Cb")
            return 2

        ctx.run_in_child_context(child, name="C")
        log(ctx.logger, "L2")
        if use_callback:
            ctx.create_callback(name="W").result()
        else:
            ctx.wait(Duration(5), name="W")
        log(ctx.logger, "L3")
        ctx.step(stepfn("in-S3", fail_first=s3_retry), name="S3", config=RETRY_ONCE if s3_retry else None)
        log(ctx.logger, "L4")
        return 1

    return handler


def drive(ci, cc, psel, use_callback, s1_fails, s3_retry=False):
    """run the execution; returns per invocation: (completed-at-start op names, executed sites, emitted records)"""
    be = Backend(page_size=[None, 1, 2, 3][psel], empty_pages=(psel == 1))   # page size 1: empty pages with markers, incl. an empty FIRST page on re-invocations
    be.callback_outcome["W"] = ("SUCCEEDED", "x")
    if ci > 0:
        be.crash_call = (ci, cc, "after")
    per_inv = []
    state = {}

    def on_inv(i):
        done = {op.name for op in be.ops.values() if op.status in TERMINAL}
        state["cur"] = (done, [], Cap())
        per_inv.append(state["cur"])

    class ExecProxy(list):
        def append(self, x):
            state["cur"][1].append(x)

    class CapProxy:
        def info(self, msg, *args, extra=None):
            state["cur"][2].info(msg, *args, extra=extra)

        debug = warning = error = exception = info

    handler = make_handler(CapProxy(), ExecProxy(), use_callback, s1_fails, s3_retry)
    res = run_execution(handler, be, max_invocations=6, on_invocation=on_inv)
    return be, res, per_inv


def oracle(per_inv, be):
    ids = {op.name: op for op in be.ops.values()}
    for n, (done, executed, cap) in enumerate(per_inv):
        emitted = [m for (m, _x) in cap.records]
        last_done = max([OP_POS[name] for name in done if name in OP_POS], default=-1)
        for site in executed:
            want = LOG_POS[site] > last_done
            if want:
                h.check(site in emitted, "a log call made after the last previously-completed operation was swallowed")
            else:
                h.check(site not in emitted, "a log call in code an earlier invocation already ran was emitted again")
        h.check(len(emitted) == len(set(emitted)), "a log call was emitted twice in one invocation")
        for (m, x) in cap.records:
            h.check(x.get("executionArn") == "arn:exec", "record without the execution ARN")
            if m in ("C0", "Ca", "Cb") and "C" in ids:
                h.check(x.get("parentId") == ids["C"].operation_id, "record inside a child context must carry the context's id as parentId")
            if m.startswith("in-") and m[3:] in ids:
                h.check(x.get("operationId") == ids[m[3:]].operation_id and x.get("attempt", 0) >= 1, "record inside a step must carry the step's operation id and attempt")
            if m in ("in-C1", "in-C2") and "C" in ids:
                h.check(x.get("parentId") == ids["C"].operation_id)


def _mk(psel):
    def lem(ci: int, cc: int, use_callback: bool, s1_fails: bool, s3_retry: bool):
        """
        pre: 0 <= ci <= 2 and 1 <= cc <= 5
        post: True
        """
        be, res, per_inv = drive(ci, cc, psel, use_callback, s1_fails, s3_retry)
        h.check(res.deadlock is None and res.final is not None and res.final["Status"] == "SUCCEEDED", "execution did not finish")
        if len(per_inv) >= 2:
            h.reach("resumed")
        if ci > 0 and any(o == ("crash",) for o in res.outputs):
            h.reach("crashed")
        # first invocation: everything it executes is emitted
        done0, ex0, cap0 = per_inv[0]
        h.check([m for (m, _x) in cap0.records] == ex0, "in a first invocation every log call must be emitted")
        oracle(per_inv, be)
        h.end()

    lem.__name__ = lem.__qualname__ = f"replay_logging_page{psel}"
    return h.lemma(timeout=600, thorough_timeout=1800, funcs=FUNCS, reach=("end", "resumed", "crashed"),
                   bounds="template above; interruption = suspension at W plus an optional process crash after API call 1..5 of invocation 1..2; W is a wait or a "
                          f"callback; S1 succeeds or fails (caught by user code); S3 succeeds at once or fails its first attempt and is retried (PENDING -> READY -> attempt 2); history page size {[None, 1, 2, 3][psel]} (payload = first page)")(lem)


for _p in range(4):
    _f = _mk(_p)
    globals()[_f.__name__] = _f
del _f, _p



# ---------------------------------------------------------------- histories WITHOUT any completed operation, and an empty first page in the FIRST invocation
O_OP_POS = {"W": 1, "F": 9}   # the callback operation sits where it is created (that is where the SDK visits it); result() is not an operation of its own
O_LOG_POS = {"L0": 0, "L1": 2, "L2": 6, "in-F": 8, "L3": 10}


@h.lemma(timeout=300, funcs=FUNCS, reach=("end", "resumed", "outstanding_only"),
         bounds="program L0; create_callback W; L1; W.result(); L2; step F{log}; L3; optional process crash after API call 1..2 of invocation 1 (leaves a history whose only "
                "operation is an OUTSTANDING callback: nothing completed, so nothing is being replayed); history inline / page size 1 with empty pages, where the FIRST "
                "invocation's payload may also be an empty first page")
def replay_logging_outstanding_first(ci: int, cc: int, paged: bool, empty_first: bool):
    """
    pre: 0 <= ci <= 1 and 1 <= cc <= 2
    post: True
    """
    be = Backend(page_size=1 if paged else None, empty_pages=paged)
    if paged and empty_first:
        be.empty_first_from = 1
    be.callback_outcome["W"] = ("SUCCEEDED", "x")
    be.advance_after_crash = False
    if ci > 0:
        be.crash_call = (ci, cc, "after")
    per_inv = []
    state = {}

    def on_inv(i):
        done = {op.name for op in be.ops.values() if op.status in TERMINAL}
        if be.ops and not done:
            h.reach("outstanding_only")
        state["cur"] = (done, [], Cap())
        per_inv.append(state["cur"])

    def handler(event, ctx):
        cap = state["cur"][2]
        ctx.set_logger(cap)

        def log(lg, site):
            state["cur"][1].append(site)
            emit(lg, site)

        log(ctx.logger, "L0")
        cb = ctx.create_callback(name="W")
        log(ctx.logger, "L1")
        cb.result()
        log(ctx.logger, "L2")

        def f(sc):
            log(sc.logger, "in-F")
            return 1
        ctx.step(f, name="F")
        log(ctx.logger, "L3")
        return 1

    res = run_execution(handler, be, max_invocations=6, on_invocation=on_inv)
    h.check(res.deadlock is None and res.final is not None and res.final["Status"] == "SUCCEEDED", "execution did not finish")
    if len(per_inv) >= 2:
        h.reach("resumed")
    done0, ex0, cap0 = per_inv[0]
    h.check([m for (m, _x) in cap0.records] == ex0, "in a first invocation every log call must be emitted")
    for (done, executed, cap) in per_inv:
        emitted = [m for (m, _x) in cap.records]
        last_done = max([O_OP_POS[n] for n in done if n in O_OP_POS], default=-1)
        for site in executed:
            if O_LOG_POS[site] > last_done:
                h.check(site in emitted, "a log call that precedes no previously-completed operation was swallowed")
            else:
                h.check(site not in emitted, "a log call in code an earlier invocation already ran was emitted again")
    h.end()


# ------------------------------------------------------------------------------------------------ programs with map / parallel blocks (treated as units)
from harness import exec_world as XW  # noqa: E402
from aws_durable_execution_sdk_python.config import CompletionConfig, MapConfig, ParallelConfig  # noqa: E402

ASSUMPTIONS = ASSUMPTIONS + XW.ASSUMPTIONS_EXEC + [
    "map/parallel blocks run on the modelled thread pool inside the composed world (branches run one after the other in a solver-chosen order); log calls INSIDE a "
    "block are not asserted (the property treats blocks as units); operations inside a block sit at the block's program position",
]

# program: L0 ; S0 ; L1 ; BLOCK ; L2 ; wait W ; L3 ; step F {log} ; L4
B_OP_POS = {"S0": 3, "BLOCK": 10, "W": 14, "F": 19}
B_LOG_POS = {"L0": 0, "in-S0": 2, "L1": 4, "L2": 12, "L3": 16, "in-F": 18, "L4": 20}
INNER_POS = 9   # anything recorded inside the block


def block_handler(kind, cap, executed, first):
    def handler(event, ctx):
        XW.World(choices=[first])
        ctx.set_logger(cap)

        def log(lg, site):
            executed.append(site)
            emit(lg, site)

        def st(site):
            def fn(sc):
                log(sc.logger, site)
                return 1
            return fn

        log(ctx.logger, "L0")
        ctx.step(st("in-S0"), name="S0")
        log(ctx.logger, "L1")
        if kind == 0:
            # completes early (min_successful=1) while the other branch has finished an inner step and is parked on a long wait
            def fast(c):
                return c.step(lambda s: "f", name="f")

            def slow(c):
                c.step(lambda s: "s", name="s")
                c.wait(Duration(3600), name="slow-wait")
                return "slow"
            ctx.parallel([fast, slow], name="BLOCK", config=ParallelConfig(completion_config=CompletionConfig(min_successful=1)))
        elif kind == 1:
            # in flight across two invocations: one branch done, the other parked on a short wait
            def quick(c):
                return c.step(lambda s: "q", name="q")

            def napper(c):
                c.step(lambda s: "s1", name="s1")
                c.wait(Duration(5), name="nap")
                return "n"
            ctx.parallel([quick, napper], name="BLOCK")
        elif kind == 3:
            # a context recorded with ReplayChildren (oversized result) NESTED in a context that completed normally (small result)
            def inner(c2):
                c2.step(lambda s: 1, name="p")
                return BIGV

            def outer(c):
                c.run_in_child_context(inner, name="inner")
                c.step(lambda s: 2, name="q")
                return "small"
            ctx.run_in_child_context(outer, name="BLOCK")
        else:
            # tolerated failure + oversized result: recorded as summary with ReplayChildren, rebuilt by replay()
            def item(c, x, i, items):
                if i == 1:
                    raise ValueError("item failed")
                return c.step(lambda s: BIGV, name=f"m{i}")
            ctx.map([0, 1], item, name="BLOCK", config=MapConfig(completion_config=CompletionConfig(tolerated_failure_count=1)))
        log(ctx.logger, "L2")
        ctx.wait(Duration(5), name="W")
        log(ctx.logger, "L3")
        ctx.step(st("in-F"), name="F")
        log(ctx.logger, "L4")
        return 1

    return handler


BIGV = "BIG" if h.MODE == "sx" else "B" * 300000

if h.MODE == "sx":
    def _mentions_big(v):
        if isinstance(v, str):
            return v == "BIG"
        if isinstance(v, (list, tuple)):
            return any(_mentions_big(x) for x in v)
        if isinstance(v, dict):
            return any(_mentions_big(x) for x in v.values())
        return False

    JsonModel.size_of = staticmethod(lambda v: 300000 if _mentions_big(v) else 10)


def _mk_block(kind):
    names = ["early_completion", "in_flight", "large_with_failed_item", "nested_large_child"]

    def lem(first: int, psel: int, ci: int, cc: int):
        """
        pre: 0 <= first < 2 and 0 <= psel < 3 and 0 <= ci <= 1 and 1 <= cc <= 6
        post: True
        """
        be = Backend(page_size=[None, 2, 4][psel])
        if ci > 0:
            be.crash_call = (ci, cc, "after")
        per_inv = []
        state = {}

        def on_inv(i):
            done = {op.name for op in be.ops.values() if op.status in TERMINAL}
            state["cur"] = (done, [], Cap())
            per_inv.append(state["cur"])

        class ExecProxy(list):
            def append(self, x):
                state["cur"][1].append(x)

        class CapProxy:
            def info(self, msg, *args, extra=None):
                state["cur"][2].info(msg, *args, extra=extra)

            debug = warning = error = exception = info

        res = run_execution(block_handler(kind, CapProxy(), ExecProxy(), first), be, max_invocations=6, on_invocation=on_inv)
        h.check(res.deadlock is None and res.final is not None and res.final["Status"] == "SUCCEEDED", "execution did not finish")
        if len(per_inv) >= 2:
            h.reach("resumed")
        for (done, executed, cap) in per_inv:
            emitted = [m for (m, _x) in cap.records]
            last_done = -1
            for name in done:
                pos = B_OP_POS.get(name, INNER_POS)
                if pos > last_done:
                    last_done = pos
            for site in executed:
                if B_LOG_POS[site] > last_done:
                    h.check(site in emitted, "a log call made after the last previously-completed operation was swallowed")
                else:
                    h.check(site not in emitted, "a log call in code an earlier invocation already ran was emitted again")
        h.end()

    lem.__name__ = lem.__qualname__ = f"replay_logging_block_{names[kind]}"
    return h.lemma(timeout=600, thorough_timeout=1800, funcs=FUNCS + ["concurrency.executor.ConcurrentExecutor.execute/replay/_execute_item_in_child_context"],
                   reach=("end", "resumed"),
                   bounds=f"program L0; S0; L1; BLOCK; L2; wait; L3; step F{{log}}; L4 with BLOCK = {names[kind]} (parallel/map); which branch runs first is solver-chosen; "
                          "history page size none/2/4; optional process crash after API call 1..6 of invocation 1")(lem)


for _k in range(4):
    _f = _mk_block(_k)
    globals()[_f.__name__] = _f
del _f, _k
