"""C17 - the context logger is silent while replaying completed work, audible afterwards.

Composed world (harness/inv.py).  Program (program order positions in brackets):
    [0] log L0 ; [1] step S1 {log inside} ; [2] log L1 ; [3..9] child C { [3] log C0 ; [4] step C1 {log} ; [5] log Ca ; [6] step C2 {log} ; [7] log Cb } ;
    [10] log L2 ; [11] wait W (or callback, solver-chosen) ; [12] log L3 ; [13] step S3 {log} ; [14] log L4
An execution is driven to a solver-chosen interruption (process crash after a solver-chosen API call, or the suspension at W), then re-invoked with
the history split between the invocation payload and later pages at a solver-chosen page size.  Oracle for EVERY log call executed by an invocation:
emitted  <=>  no operation that had completed before this invocation began lies after the call in program order.  Emitted records carry the execution
ARN, and the enclosing operation's ids (parentId inside a child context, operationId inside a step).
"""
from __future__ import annotations

from vk import h
from harness import common  # noqa: F401
from harness.common import TERMINAL
from harness.inv import ASSUMPTIONS_INV, Backend, run_execution
import aws_durable_execution_sdk_python.execution as X
import aws_durable_execution_sdk_python.serdes as SER
from aws_durable_execution_sdk_python.config import Duration, StepConfig
from aws_durable_execution_sdk_python.exceptions import CallableRuntimeError
from aws_durable_execution_sdk_python.retries import RetryDecision

if h.MODE == "sx":
    from vk.jsonmodel import JsonModel

    SER.json = JsonModel
    X.json = JsonModel
    JsonModel.size_of = staticmethod(lambda v: 10)

ASSUMPTIONS = ASSUMPTIONS_INV + [
    "the logger under test is the one installed with DurableContext.set_logger (a capturing LoggerInterface); stdlib logging of the SDK's own modules is disabled",
    "program order of a log call vs. an operation is the static order of the template; an operation 'had completed' iff the backend held it in a terminal status when the invocation began",
]
FUNCS = ["logger.Logger._log/_should_log/with_log_info/from_log_info", "state.ExecutionState.track_replay/is_replaying", "execution.durable_execution.wrapper (initial ReplayStatus)",
         "context.DurableContext.step/wait/run_in_child_context/create_callback/set_logger/create_child_context", "state.ExecutionState.fetch_paginated_operations"]

NO_RETRY = StepConfig(retry_strategy=lambda e, n: RetryDecision.no_retry())


class Cap:
    """capturing LoggerInterface"""

    def __init__(self):
        self.records = []

    def info(self, msg, *args, extra=None):
        self.records.append((msg, dict(extra or {})))

    debug = warning = error = exception = info


# program-order position of every op name (position at which it COMPLETES) and of every log site
# (x2 so that an operation completes strictly after the log call inside its own body)
OP_POS = {"S1": 3, "C1": 9, "C2": 13, "C": 18, "W": 22, "S3": 27}
LOG_POS = {"L0": 0, "in-S1": 2, "L1": 4, "C0": 6, "in-C1": 8, "Ca": 10, "in-C2": 12, "Cb": 14, "L2": 20, "L3": 24, "in-S3": 26, "L4": 28}


def make_handler(cap, executed, use_callback, s1_fails, s3_retry=False):
    calls = {"S3": 0}
    RETRY_ONCE = StepConfig(retry_strategy=lambda e, n: RetryDecision.retry(Duration(1)) if n < 2 else RetryDecision.no_retry())

    def handler(event, ctx):
        ctx.set_logger(cap)

        def log(lg, site):
            executed.append(site)
            lg.info(site)

        def stepfn(site, fail=False, fail_first=False):
            def fn(sc):
                log(sc.logger, site)
                if fail:
                    raise ValueError("s1 failed")
                if fail_first:
                    calls["S3"] += 1
                    if calls["S3"] == 1:
                        raise ValueError("transient")
                return 1
            return fn

        log(ctx.logger, "L0")
        try:
            ctx.step(stepfn("in-S1", s1_fails), name="S1", config=NO_RETRY)
        except CallableRuntimeError:
            pass
        log(ctx.logger, "L1")

        def child(c):
            log(c.logger, "C0")
            c.step(stepfn("in-C1"), name="C1")
            log(c.logger, "Ca")
            c.step(stepfn("in-C2"), name="C2")
            log(c.logger, "Cb")
            return 2

        ctx.run_in_child_context(child, name="C")
        log(ctx.logger, "L2")
        if use_callback:
            ctx.create_callback(name="W").result()
        else:
            ctx.wait(Duration(5), name="W")
        log(ctx.logger, "L3")
        ctx.step(stepfn("in-S3", fail_first=s3_retry), name="S3", config=RETRY_ONCE if s3_retry else None)
        log(ctx.logger, "L4")
        return 1

    return handler


def drive(ci, cc, psel, use_callback, s1_fails, s3_retry=False):
    """run the execution; returns per invocation: (completed-at-start op names, executed sites, emitted records)"""
    be = Backend(page_size=[None, 1, 2, 3][psel])
    be.callback_outcome["W"] = ("SUCCEEDED", "x")
    if ci > 0:
        be.crash_call = (ci, cc, "after")
    per_inv = []
    state = {}

    def on_inv(i):
        done = {op.name for op in be.ops.values() if op.status in TERMINAL}
        state["cur"] = (done, [], Cap())
        per_inv.append(state["cur"])

    class ExecProxy(list):
        def append(self, x):
            state["cur"][1].append(x)

    class CapProxy:
        def info(self, msg, *args, extra=None):
            state["cur"][2].info(msg, *args, extra=extra)

        debug = warning = error = exception = info

    handler = make_handler(CapProxy(), ExecProxy(), use_callback, s1_fails, s3_retry)
    res = run_execution(handler, be, max_invocations=6, on_invocation=on_inv)
    return be, res, per_inv


def oracle(per_inv, be):
    ids = {op.name: op for op in be.ops.values()}
    for n, (done, executed, cap) in enumerate(per_inv):
        emitted = [m for (m, _x) in cap.records]
        last_done = max([OP_POS[name] for name in done if name in OP_POS], default=-1)
        for site in executed:
            want = LOG_POS[site] > last_done
            if want:
                h.check(site in emitted, "a log call made after the last previously-completed operation was swallowed")
            else:
                h.check(site not in emitted, "a log call in code an earlier invocation already ran was emitted again")
        h.check(len(emitted) == len(set(emitted)), "a log call was emitted twice in one invocation")
        for (m, x) in cap.records:
            h.check(x.get("executionArn") == "arn:exec", "record without the execution ARN")
            if m in ("C0", "Ca", "Cb") and "C" in ids:
                h.check(x.get("parentId") == ids["C"].operation_id, "record inside a child context must carry the context's id as parentId")
            if m.startswith("in-") and m[3:] in ids:
                h.check(x.get("operationId") == ids[m[3:]].operation_id and x.get("attempt", 0) >= 1, "record inside a step must carry the step's operation id and attempt")
            if m in ("in-C1", "in-C2") and "C" in ids:
                h.check(x.get("parentId") == ids["C"].operation_id)


def _mk(psel):
    def lem(ci: int, cc: int, use_callback: bool, s1_fails: bool, s3_retry: bool):
        """
        pre: 0 <= ci <= 2 and 1 <= cc <= 5
        post: True
        """
        be, res, per_inv = drive(ci, cc, psel, use_callback, s1_fails, s3_retry)
        h.check(res.deadlock is None and res.final is not None and res.final["Status"] == "SUCCEEDED", "execution did not finish")
        if len(per_inv) >= 2:
            h.reach("resumed")
        if ci > 0 and any(o == ("crash",) for o in res.outputs):
            h.reach("crashed")
        # first invocation: everything it executes is emitted
        done0, ex0, cap0 = per_inv[0]
        h.check([m for (m, _x) in cap0.records] == ex0, "in a first invocation every log call must be emitted")
        oracle(per_inv, be)
        h.end()

    lem.__name__ = lem.__qualname__ = f"replay_logging_page{psel}"
    return h.lemma(timeout=600, thorough_timeout=1800, funcs=FUNCS, reach=("end", "resumed", "crashed"),
                   bounds="template above; interruption = suspension at W plus an optional process crash after API call 1..5 of invocation 1..2; W is a wait or a "
                          f"callback; S1 succeeds or fails (caught by user code); S3 succeeds at once or fails its first attempt and is retried (PENDING -> READY -> attempt 2); history page size {[None, 1, 2, 3][psel]} (payload = first page)")(lem)


for _p in range(4):
    _f = _mk(_p)
    globals()[_f.__name__] = _f
del _f, _p
