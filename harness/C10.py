"""C10 - nothing is recorded under a context after that context has completed.

  orphan_gate (SX): real ExecutionState.create_checkpoint (asynchronous hand-over into a stub queue) over a solver-chosen operation forest
       (<= 4 operations, parent links solver-chosen) and a solver-chosen sequence of <= 5 updates: once a CONTEXT SUCCEED/FAIL for P was handed
       over, every later update whose ancestor chain contains P - for an operation that already existed or for one first started afterwards -
       raises OrphanedChildException and is not enqueued; every other update is enqueued.
  Executor-level part (an orphaned branch is stopped at its next durable operation before its user function runs): harness/exec_world lemmas
  (orphan_branch_stopped) once a branch outlives its parent's completion.
"""
from __future__ import annotations

from vk import h
from harness import batcher  # stubs for queue / events (no blocking: async hand-over)
from aws_durable_execution_sdk_python.exceptions import OrphanedChildException
from aws_durable_execution_sdk_python.lambda_service import OperationAction, OperationType
from aws_durable_execution_sdk_python.state import ExecutionState
from aws_durable_execution_sdk_python.config import CompletionConfig
from aws_durable_execution_sdk_python.concurrency.models import BatchItemStatus

A = OperationAction
ASSUMPTIONS = [
    "the hand-over queue is a FIFO list stub; updates are handed over asynchronously (is_sync=False) so create_checkpoint never blocks; what matters is whether the update was enqueued",
    "operation ids a,b,c,d with parent links chosen by the solver such that the links form a forest (parent index < child index or root)",
    "updates are abstract (id, parent, type, action) records; only these attributes are read by the orphan gate",
    "reachable histories: an update for an operation under context Y is only handed over after Y's START was accepted (operations are created inside the body of their context; C11)",
]
FUNCS = ["state.ExecutionState.create_checkpoint (orphan gate)", "state.ExecutionState._mark_orphans"]

IDS = ["a", "b", "c", "d"]
ACTS = [A.START, A.SUCCEED, A.FAIL, A.RETRY]


class U:
    def __init__(self, oid, parent, otype, action):
        self.operation_id = oid
        self.parent_id = parent
        self.operation_type = otype
        self.action = action
        self.size = 1


def ancestors(i, parents):
    out = []
    p = parents[i]
    while p >= 0:
        out.append(p)
        p = parents[p]
    return out


FORESTS = {
    "chain": [-1, 0, 1, 2],          # a > b > c > d
    "star": [-1, 0, 0, 0],           # a > {b, c, d}
    "two_trees": [-1, 0, -1, 2],     # a > b ; c > d
    "fork": [-1, 0, 1, 0],           # a > {b > c, d}
}
ACTS3 = [A.START, A.SUCCEED, A.FAIL]


def _mk(fname, nseq):
    parents = FORESTS[fname]
    is_ctx = [any(parents[j] == i for j in range(4)) for i in range(4)]

    def lem(t0: int, t1: int, t2: int, t3: int, a0: int, a1: int, a2: int, a3: int, retry_last: bool):
        """
        pre: 0 <= t0 < 4 and 0 <= t1 < 4 and 0 <= t2 < 4 and 0 <= t3 < 4
        pre: 0 <= a0 < 3 and 0 <= a1 < 3 and 0 <= a2 < 3 and 0 <= a3 < 3
        post: True
        """
        st = ExecutionState("arn", "t0", {}, None)
        done_ctx = []      # indices of contexts whose completion record was handed over
        started = []       # indices of contexts whose START was accepted
        seq = list(zip([t0, t1, t2, t3], [a0, a1, a2, a3]))[:nseq]
        for k, (t, a) in enumerate(seq):
            act = ACTS3[a]
            if retry_last and k == nseq - 1 and not is_ctx[t]:
                act = A.RETRY
            otype = OperationType.CONTEXT if is_ctx[t] else OperationType.STEP
            if parents[t] >= 0 and parents[t] not in started:
                return  # reachable histories only: an operation is created inside its context's body, i.e. after the context's START was handed over
            u = U(IDS[t], IDS[parents[t]] if parents[t] >= 0 else None, otype, act)
            before = len(st._checkpoint_queue.items)
            under_done = any(x in done_ctx for x in ancestors(t, parents))
            try:
                st._orig_create_checkpoint(u, is_sync=False)
                accepted = True
            except OrphanedChildException:
                accepted = False
            enq = len(st._checkpoint_queue.items) - before
            if under_done:
                h.reach("orphan")
                h.check(not accepted and enq == 0, "an update of a descendant of a completed context reached the pipeline")
            else:
                h.check(accepted and enq == 1, "an update outside any completed context was rejected or lost")
            if accepted and is_ctx[t] and act in (A.SUCCEED, A.FAIL):
                done_ctx.append(t)
            if accepted and is_ctx[t] and act is A.START:
                started.append(t)
        h.end()

    lem.__name__ = lem.__qualname__ = f"orphan_gate_{fname}_seq{nseq}"
    return h.lemma(timeout=600, thorough_timeout=2400, funcs=FUNCS, reach=("end", "orphan"), tier="quick" if nseq <= 3 else "thorough",
                   bounds=f"forest '{fname}' over operations a..d (parents {parents}); {nseq} updates, each on any operation with START/SUCCEED/FAIL "
                          "(last one optionally RETRY); only reachable histories (an operation's context was started before it)")(lem)


for _fn in FORESTS:
    for _n in (3, 4):
        _f = _mk(_fn, _n)
        globals()[_f.__name__] = _f
del _f, _n, _fn


def _mk_known(fname):
    parents = FORESTS[fname]
    is_ctx = [any(parents[j] == i for j in range(4)) for i in range(4)]

    import itertools
    NAMINGS = [["a", "b", "c", "d"], ["a", "d", "c", "b"], ["n3", "n1", "n0", "n2"]]
    ORDERS = [list(o) for o in itertools.permutations(range(4)) if all(parents[i] < 0 or o.index(parents[i]) < o.index(i) for i in range(4))]

    def one(done_first, fail_first, done_second, second_on, t, a, IDS, order):
        st = ExecutionState("arn", "t0", {}, None)
        for i in order:   # every operation was started earlier (parents first): the forest is known to the state
            st._orig_create_checkpoint(U(IDS[i], IDS[parents[i]] if parents[i] >= 0 else None,
                                         OperationType.CONTEXT if is_ctx[i] else OperationType.STEP, A.START), is_sync=False)
        done = []
        for (c, fail) in ([(done_first, fail_first)] + ([(done_second, not fail_first)] if second_on else [])):
            if any(x in done for x in ancestors(c, parents)) or c in done:
                continue
            st._orig_create_checkpoint(U(IDS[c], IDS[parents[c]] if parents[c] >= 0 else None, OperationType.CONTEXT, A.FAIL if fail else A.SUCCEED), is_sync=False)
            done.append(c)
        act = [A.START, A.SUCCEED, A.FAIL, A.RETRY][a]
        if is_ctx[t] and act is A.RETRY:
            return
        if t in done:
            return
        before = len(st._checkpoint_queue.items)
        under_done = any(x in done for x in ancestors(t, parents))
        try:
            st._orig_create_checkpoint(U(IDS[t], IDS[parents[t]] if parents[t] >= 0 else None,
                                         OperationType.CONTEXT if is_ctx[t] else OperationType.STEP, act), is_sync=False)
            accepted = True
        except OrphanedChildException:
            accepted = False
        enq = len(st._checkpoint_queue.items) - before
        if under_done:
            h.reach("orphan")
            h.check(not accepted and enq == 0, "an update (any action) of an existing descendant of a completed context reached the pipeline")
        else:
            h.check(accepted and enq == 1, "an update outside any completed context was rejected or lost")

    def lem(done_first: int, fail_first: bool, done_second: int, second_on: bool, t: int, a: int, naming: int, oi: int):
        """
        pre: 0 <= done_first < 4 and 0 <= done_second < 4 and 0 <= t < 4 and 0 <= a < 4 and 0 <= naming < 3 and 0 <= oi < 3
        post: True
        """
        if not is_ctx[done_first] or (second_on and not is_ctx[done_second]):
            return
        if (second_on or naming == 2) and not h.THOROUGH:
            return   # quick tier: one completing context, two namings
        if h.MODE == "sx":
            # sibling sets are traversed in hash order (CPython) or insertion order (CrossHair's sets): the id naming and the order in which
            # the operations were first seen are part of the symbolic input
            one(done_first, fail_first, done_second, second_on, t, a, NAMINGS[naming], ORDERS[oi % len(ORDERS)])
        else:
            # concrete replay: set iteration order differs between the symbolic and the real interpreter, so try every naming/order
            for ids in NAMINGS:
                for order in ORDERS:
                    one(done_first, fail_first, done_second, second_on, t, a, ids, order)
        h.end()

    lem.__name__ = lem.__qualname__ = f"orphan_gate_known_{fname}"
    return h.lemma(timeout=400, thorough_timeout=1800, funcs=FUNCS, reach=("end", "orphan"),
                   bounds=f"forest '{fname}' with all four operations already started (3 first-seen orders x 2 id namings; 3 namings and a second completing context in thorough); one context completes (SUCCEED or FAIL); then one update of any "
                          "action (START/SUCCEED/FAIL/RETRY) on any operation")(lem)


for _fn in FORESTS:
    _f = _mk_known(_fn)
    globals()[_f.__name__] = _f
del _f, _fn

# replay must not re-run branches that were unfinished when the parent completed (shared with C16)
from harness import C16 as _C16  # noqa: E402

replay_runs_no_unfinished_branch = _C16.batch_replay
replay_runs_no_unfinished_branch.__module__ = __name__


# ------------------------------------------------------------------------------------------------ executor level: a live orphan branch is stopped
from harness import exec_world as XW  # noqa: E402
from harness.common import FakeState  # noqa: E402

ASSUMPTIONS = ASSUMPTIONS + XW.ASSUMPTIONS_EXEC + [
    "orphan_branch_stopped: the fake state delegates every hand-over to the orphan gate of a real ExecutionState (real create_checkpoint/_mark_orphans) before logging it",
]


class GateState(FakeState):
    """FakeState whose create_checkpoint first passes the real orphan gate"""

    def __init__(self):
        super().__init__(None)
        self.real = ExecutionState("arn", "t0", {}, None)
        self.rejected = []

    def create_checkpoint(self, operation_update=None, is_sync=True):
        if operation_update is not None:
            try:
                self.real._orig_create_checkpoint(operation_update, is_sync=False)
            except OrphanedChildException:
                self.rejected.append(operation_update)
                raise
        return super().create_checkpoint(operation_update, is_sync)


@h.lemma(timeout=400, funcs=FUNCS + ["concurrency.executor.ConcurrentExecutor.execute/_on_task_complete", "operation.child.child_handler", "context.DurableContext.step/wait/run_in_child_context"],
         reach=("end", "orphan_stopped"),
         bounds="parallel with min_successful=1: branch 0 succeeds and decides the operation; the surviving branch continues afterwards in one of 4 situations "
                "(about to start a new step / a wait / a nested context with a step / to complete a step that was started before); the parent's completion record is "
                "handed over before or after the survivor reached its own START (solver-chosen)")
def orphan_branch_stopped(situation: int, parent_fails: bool):
    """
    pre: 0 <= situation < 4
    post: True
    """
    from aws_durable_execution_sdk_python.config import Duration, ParallelConfig
    from aws_durable_execution_sdk_python.identifier import OperationIdentifier
    from aws_durable_execution_sdk_python.lambda_service import ContextOptions, ErrorObject, OperationSubType, OperationUpdate
    from aws_durable_execution_sdk_python.operation.parallel import ParallelExecutor
    from harness.C08 import mk_ctx

    st = GateState()
    root = mk_ctx(st)
    exec_ctx = root.create_child_context("parop")
    st.create_checkpoint(OperationUpdate.create_context_start(OperationIdentifier("parop", None, "par"), OperationSubType.PARALLEL), is_sync=False)
    entered = []
    gate = {"parent_done": False}

    def complete_parent():
        ident = OperationIdentifier("parop", None, "par")
        if parent_fails:
            st.create_checkpoint(OperationUpdate.create_context_fail(ident, ErrorObject("x", "T", None, None), OperationSubType.PARALLEL))
        else:
            st.create_checkpoint(OperationUpdate.create_context_succeed(ident, "[]", OperationSubType.PARALLEL, ContextOptions(False)))
        gate["parent_done"] = True

    def survivor(ctx):
        def body(sc):
            entered.append(("ufn", gate["parent_done"]))
            if situation == 3 and not gate["parent_done"]:
                complete_parent()      # the parent completes while this step's user function is running
            return 1
        if situation == 0:
            return ctx.step(body, name="late-step")
        if situation == 1:
            return ctx.wait(Duration(5), name="late-wait")
        if situation == 2:
            return ctx.run_in_child_context(lambda c2: c2.step(body, name="inner"), name="late-ctx")
        return ctx.step(body, name="running-step")

    ex = ParallelExecutor.from_callables([lambda ctx: "fast", survivor], ParallelConfig(completion_config=CompletionConfig(min_successful=1)))
    world = XW.World(never=[1])       # the survivor does not finish before the decision
    (kind, val), _ = XW.run_execute(ex, world, state=st, parent_id="parop")
    h.check(kind == "ret" and val.all[0].status is BatchItemStatus.SUCCEEDED and val.all[1].status is BatchItemStatus.STARTED)
    if situation != 3:
        complete_parent()
    n_before = len(st.log)
    # now the orphaned branch gets to run
    pool = XW.VExecPool.last
    f = [x for x in pool.running if x.args[1].index == 1][0]
    try:
        f.fn(*f.args)
        outcome = "returned"
    except OrphanedChildException:
        outcome = "orphan"
    except BaseException as e:  # noqa: BLE001
        outcome = type(e).__name__
    h.reach("orphan_stopped")
    h.check(outcome == "orphan", "an orphaned branch must be stopped with OrphanedChildException at its next durable operation")
    if situation != 3:
        h.check(not [e for e in entered if e[1]], "a user function of the orphaned branch was entered after the parent's completion was handed over")
    after = [u for (u, _s) in st.log[n_before:] if u is not None and not (u.operation_id == "parop")]
    if situation == 3:
        after = [u for u in after if u.action.value != "START"]
    h.check(not after, "an update of the orphaned branch reached the pipeline after the parent's completion record")
    h.end()


# ------------------------------------------------------------------------------------------------ operations known only from the history (earlier invocations)
@h.lemma(timeout=400, funcs=FUNCS, reach=("end", "orphan", "history_only"),
         bounds="forest a > b > c plus d under a; a solver-chosen subset of the operations is known only from the invocation's history (state.operations with parent "
                "links, no update handed over in this invocation), the others were started in this invocation; then a or b completes and any operation sends any update")
def orphan_gate_history(hist_a: bool, hist_b: bool, hist_c: bool, done_b: bool, fail: bool, t: int, a: int):
    """
    pre: 0 <= t < 4 and 0 <= a < 4
    post: True
    """
    from aws_durable_execution_sdk_python.lambda_service import Operation, OperationStatus

    parents = [-1, 0, 1, 0]
    is_ctx = [True, True, False, False]
    in_hist = [hist_a, hist_b, hist_c, False]
    ops = {}
    for i in range(4):
        if in_hist[i]:
            ops[IDS[i]] = Operation(IDS[i], OperationType.CONTEXT if is_ctx[i] else OperationType.STEP, OperationStatus.STARTED,
                                    parent_id=IDS[parents[i]] if parents[i] >= 0 else None)
    st = ExecutionState("arn", "t0", ops, None)
    for i in range(4):
        if not in_hist[i]:
            if parents[i] >= 0 and not in_hist[parents[i]] and False:
                pass
            st._orig_create_checkpoint(U(IDS[i], IDS[parents[i]] if parents[i] >= 0 else None,
                                         OperationType.CONTEXT if is_ctx[i] else OperationType.STEP, A.START), is_sync=False)
    if any(in_hist):
        h.reach("history_only")
    c = 1 if done_b else 0
    st._orig_create_checkpoint(U(IDS[c], IDS[parents[c]] if parents[c] >= 0 else None, OperationType.CONTEXT, A.FAIL if fail else A.SUCCEED), is_sync=False)
    act = [A.START, A.SUCCEED, A.FAIL, A.RETRY][a]
    if (is_ctx[t] and act is A.RETRY) or t == c:
        return
    before = len(st._checkpoint_queue.items)
    under_done = c in ancestors(t, parents)
    try:
        st._orig_create_checkpoint(U(IDS[t], IDS[parents[t]] if parents[t] >= 0 else None,
                                     OperationType.CONTEXT if is_ctx[t] else OperationType.STEP, act), is_sync=False)
        accepted = True
    except OrphanedChildException:
        accepted = False
    enq = len(st._checkpoint_queue.items) - before
    if under_done:
        h.reach("orphan")
        h.check(not accepted and enq == 0, "an update of a descendant of a completed context reached the pipeline (the descendant was started in an earlier invocation)")
    else:
        h.check(accepted and enq == 1, "an update outside any completed context was rejected or lost")
    h.end()


# ------------------------------------------------------------------------------------------------ the completion record is still in flight
from harness.batcher import Client as _Client, World as _World  # noqa: E402


class _CU(U):
    def __init__(self, i, oid, parent, otype, action):
        super().__init__(oid, parent, otype, action)
        self.i = i


def _mk_inflight(pto):
    def lem(existing: bool, act_idx: int, pstep: int, slow_api: bool):
        """
        pre: 0 <= act_idx < 3 and 1 <= pstep <= 24
        post: True
        """
        w = _World(10, 10, 0.2 if slow_api else 0.0, _Client(), pre_step=[pstep], pre_to=[pto])
        st = w.state
        # this invocation: context P and (optionally) its child X were started earlier
        st._orig_create_checkpoint(_CU(0, "P", None, OperationType.CONTEXT, A.START), is_sync=False)
        if existing:
            st._orig_create_checkpoint(_CU(1, "X", "P", OperationType.STEP, A.START), is_sync=False)
        outcome = {}

        def completer():
            yield from st._co_create_checkpoint(_CU(2, "P", None, OperationType.CONTEXT, A.SUCCEED), True)
            outcome["P"] = "returned"

        def orphan():
            # the orphaned branch reaches its next checkpoint only after the parent's completion was handed over
            class _Handed:
                def is_set(self):
                    return any(q.operation_update is not None and q.operation_update.i == 2 for q in w.handover)

            ev = _Handed()
            while not ev.is_set():
                yield ("blocked", ev)
            try:
                yield from st._co_create_checkpoint(_CU(3, "X", "P", OperationType.STEP, [A.SUCCEED, A.RETRY, A.START][act_idx]), False)
                outcome["X"] = "accepted"
            except OrphanedChildException:
                outcome["X"] = "rejected"

        w.sched.spawn("completer", completer())
        w.sched.spawn("orphan", orphan())
        w.run()
        if w.sched.k == 1:
            h.reach("preempted")
        h.check(outcome.get("X") == "rejected", "a descendant's checkpoint was accepted while the parent's completion record was in flight / handed over")
        h.check(3 not in w.client.applied, "a descendant's update reached the backend after the parent's completion record")
        h.end()

    lem.__name__ = lem.__qualname__ = f"orphan_gate_completion_in_flight_to{pto}"
    return h.lemma(timeout=400, funcs=FUNCS + ["state.ExecutionState.checkpoint_batches_forever"], reach=("end", "preempted"),
                   bounds="pipeline world: thread 1 hands over the SYNCHRONOUS completion record of context P and blocks until it is applied; thread 2 (a descendant that "
                          "existed before or is first started now) checkpoints SUCCEED/RETRY/START at any time after that hand-over; one solver-chosen preemption "
                          f"(step 1..24) to thread {['consumer', 'completer', 'orphan'][pto]}")(lem)


for _p in range(3):
    _f = _mk_inflight(_p)
    globals()[_f.__name__] = _f
del _f, _p
