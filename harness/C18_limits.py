"""C18 - "SUCCEEDED (JSON result) ... for all handler return values (JSON-serializable or not, any size)": results and errors around the Lambda response limit,
measured in bytes (lemmas shared with C16; separate module: C16 installs its own size-carrying json model)."""
from __future__ import annotations

from harness import C16 as _C16
from harness.C16 import ASSUMPTIONS  # noqa: F401

outcome_result_size_limit = _C16.final_result_limit
outcome_result_size_limit.__module__ = __name__
outcome_error_size_limit = _C16.final_error_limit_boundaries
outcome_error_size_limit.__module__ = __name__
