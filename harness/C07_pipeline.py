"""C07 - "no single invocation runs forever, whether blocked ...": a caller of create_checkpoint racing the consumer's failure path is woken
(pipeline-world lemmas shared with C06; separate module because C07's composed-world lemmas replace create_checkpoint module-wide)."""
from __future__ import annotations

from harness import C06 as _C06
from harness.C06 import ASSUMPTIONS  # noqa: F401

for _p in range(3):
    _f = getattr(_C06, f"fail_race_to{_p}")
    _g = _f
    _g.__module__ = __name__
    globals()[f"never_blocked_fail_race_to{_p}"] = _g
del _f, _g, _p

never_blocked_late_arrival = _C06.fail_late_arrival
never_blocked_late_arrival.__module__ = __name__
