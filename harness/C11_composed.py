"""C11 - composed-world lemmas (kept in a separate module: importing the composed world replaces json / create_checkpoint module-wide)."""
from __future__ import annotations

from vk import h
from harness.inv import ASSUMPTIONS_INV

ASSUMPTIONS = ASSUMPTIONS_INV

# the composed world's backend validates EVERY update of multi-invocation executions against the same automaton (incl. token chain, parent START first,
# execution-level record once and last): lemmas shared with C02 / C16
from harness import C02 as _C02  # noqa: E402
from harness import C16 as _C16  # noqa: E402

composed_stream_steps_wait_child = _C02.t_steps_wait_child_page1
composed_stream_steps_wait_child.__module__ = __name__
composed_stream_failures = _C02.t_failures_caught_page1
composed_stream_failures.__module__ = __name__
composed_stream_execution_record = _C16.final_result_limit
composed_stream_execution_record.__module__ = __name__
composed_stream_wrapped_suspenders = _C02.t_wrapped_suspenders_page1   # every synchronous START answered by a response that spans two pages
composed_stream_wrapped_suspenders.__module__ = __name__
