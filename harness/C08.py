"""C08 - operation identity is deterministic, schedule-independent and collision-free.

  id_preimage_injective (z3, strings): the pre-image string built by DurableContext._create_step_id_for_logical_step
       (translated from its AST: f"{parent}-{n}" if parent else str(n)) is injective in (has_parent, parent, n) for parents of equal
       length L; the blake2b digest is then injective by assumption (no collision in 256 bits).
  program_ids (SX): real DurableContext over a fake state executes a solver-chosen program shape (<= 3 operations per context,
       kinds step/wait/child/callback/wait_for_condition/invoke, nesting <= 2): every update's Id equals the reference H(path),
       its ParentId names the enclosing context's id, all positions get distinct ids, and a replay produces identical ids.
  branch_ids (SX): real ConcurrentExecutor._execute_item_in_child_context called for branch indices in a solver-chosen order
       (any completion order / schedule of siblings): a branch's ids depend on its index only, the parent's call counter is
       untouched, and running the same branch again (timer resubmission) yields the same ids for its inner operations.
"""
from __future__ import annotations

import hashlib

from vk import h
from harness.common import ASSUMPTIONS_COMMON, ST, FakeState
from aws_durable_execution_sdk_python.config import ChildConfig, Duration, StepConfig
from aws_durable_execution_sdk_python.context import DurableContext, ExecutionContext
from aws_durable_execution_sdk_python.exceptions import SuspendExecution
from aws_durable_execution_sdk_python.lambda_service import OperationAction as A
from aws_durable_execution_sdk_python.lambda_service import OperationType
from aws_durable_execution_sdk_python.waits import WaitForConditionConfig, WaitForConditionDecision

ASSUMPTIONS = ASSUMPTIONS_COMMON + [
    "blake2b(...).hexdigest()[:64] is collision-free (uninterpreted injective function in the z3 query; executed for real in the SX lemmas)",
    "z3 string query: parents are lowercase-hex strings of equal length L <= 8 (16 thorough; real ids have L = 64, the encoding does not depend on L), "
    "the decimal rendering of an int is a fresh string in 0|[1-9][0-9]* with n1 == n2 <=> text1 == text2",
    "in program_ids the backend completes waits/invokes/callbacks immediately so that the whole program shape is traversed in one invocation",
    "user code does not share one context between threads (outside the claim)",
]
FUNCS = ["context.DurableContext._create_step_id_for_logical_step", "context.DurableContext._create_step_id", "context.DurableContext.step/wait/"
         "run_in_child_context/create_callback/wait_for_condition/invoke/create_child_context", "threading.OrderedCounter.increment",
         "concurrency.executor.ConcurrentExecutor._execute_item_in_child_context", "operation.child.child_handler"]


def H(parent, n):
    s = f"{parent}-{n}" if parent else str(n)
    return hashlib.blake2b(s.encode()).hexdigest()[:64]


class IdState(FakeState):
    """fake state whose backend completes waits / invokes / callbacks immediately"""

    def _apply(self, u):
        super()._apply(u)
        if u is None:
            return
        import dataclasses
        from aws_durable_execution_sdk_python.lambda_service import CallbackDetails, ChainedInvokeDetails

        op = self.ops[u.operation_id]
        if u.action is A.START and u.operation_type in (OperationType.WAIT, OperationType.CHAINED_INVOKE):
            self.ops[u.operation_id] = dataclasses.replace(op, status=ST.SUCCEEDED,
                                                           chained_invoke_details=ChainedInvokeDetails(result="1") if u.operation_type is OperationType.CHAINED_INVOKE else None)
        if u.action is A.START and u.operation_type is OperationType.CALLBACK:
            self.ops[u.operation_id] = dataclasses.replace(op, status=ST.SUCCEEDED, callback_details=CallbackDetails("cb", "r"))


def mk_ctx(st):
    return DurableContext(state=st, execution_context=ExecutionContext("arn"), lambda_context=None, parent_id=None)


def run_op(ctx, kind, inner_kinds, path, log):
    """execute one operation of `kind` on ctx at structural position `path`"""
    name = "/".join(str(p) for p in path)
    if kind == 0:
        ctx.step(lambda c: 1, name=name)
    elif kind == 1:
        ctx.wait(Duration(5), name=name)
    elif kind == 2:
        def body(child):
            for j, k in enumerate(inner_kinds):
                run_op(child, k, [], path + [j + 1], log)
            return 1
        ctx.run_in_child_context(body, name=name)
    elif kind == 3:
        ctx.create_callback(name=name).result()
    elif kind == 4:
        ctx.wait_for_condition(lambda s, c: 1, WaitForConditionConfig(lambda s, n: WaitForConditionDecision.stop_polling(), 0), name=name)
    else:
        ctx.invoke("fn", 1, name=name)


def expected_ids(kinds, inner):
    """name -> (id, parent_id) per the reference formula over the structural path"""
    out = {}
    for i, k in enumerate(kinds):
        oid = H(None, i + 1)
        out[str(i + 1)] = (oid, None)
        if k == 2:
            for j, _ik in enumerate(inner[i]):
                out[f"{i + 1}/{j + 1}"] = (H(oid, j + 1), oid)
    return out


def _check_program(kinds, inner):
    n = len(kinds)
    exp = expected_ids(kinds, inner)
    st = IdState(None)
    ctx = mk_ctx(st)
    for i, k in enumerate(kinds):
        run_op(ctx, k, inner[i], [i + 1], None)
    seen = {}
    for (u, _sync) in st.log:
        if u is None:
            continue
        h.check(u.name in exp, "update for an unknown structural position")
        eid, epar = exp[u.name]
        h.check(u.operation_id == eid, "Id is not the pure function of the structural position")
        h.check(u.parent_id == epar, "ParentId does not name the enclosing context")
        seen[u.name] = u.operation_id
    h.check(len(seen) == len(exp), "some position produced no update")
    h.check(len(set(seen.values())) == len(seen), "two positions share an identifier")
    # replay against the recorded history: same ids, nothing new sent
    st2 = IdState(None)
    st2.ops = dict(st.ops)
    ctx2 = mk_ctx(st2)
    for i, k in enumerate(kinds):
        run_op(ctx2, k, inner[i], [i + 1], None)
    h.reach("replayed")
    h.check(not [u for (u, _s) in st2.log if u is not None], "replay produced updates: positions did not map to the recorded ids")


@h.lemma(timeout=300, thorough_timeout=1200, funcs=FUNCS, reach=("end", "replayed"),
         bounds="flat program: <= 3 operations at top level, each of kind step/wait/child(empty)/callback/wait_for_condition/invoke; first execution + full replay")
def program_ids_flat(n: int, k0: int, k1: int, k2: int):
    """
    pre: 1 <= n <= 3 and 0 <= k0 < 6 and 0 <= k1 < 6 and 0 <= k2 < 6
    post: True
    """
    kinds = [k0, k1, k2][:n]
    _check_program(kinds, [[] for _ in kinds])
    h.end()


@h.lemma(timeout=300, thorough_timeout=1200, funcs=FUNCS, reach=("end", "nested", "replayed"),
         bounds="nested program: [op, child{<= 2 inner ops of kind step/wait/callback}, child{1 inner op}] with the first op of any kind: ids inside a child "
                "restart at 1 under the child's id; first execution + full replay")
def program_ids_nested(k0: int, m: int, ik0: int, ik1: int, ik2: int):
    """
    pre: 0 <= k0 < 6 and 0 <= m <= 2 and 0 <= ik0 < 3 and 0 <= ik1 < 3 and 0 <= ik2 < 3
    post: True
    """
    IK = [0, 1, 3]
    kinds = [k0, 2, 2]
    inner = [[], [IK[ik0], IK[ik1]][:m], [IK[ik2]]]
    if m >= 1:
        h.reach("nested")
    _check_program(kinds, inner)
    h.end()


PERMS = [[0, 1, 2], [0, 2, 1], [1, 0, 2], [1, 2, 0], [2, 0, 1], [2, 1, 0]]


@h.lemma(timeout=300, funcs=FUNCS, reach=("end", "resubmitted"),
         bounds="map or parallel with 3 branches executed in every order (6 permutations); each branch does step, wait, step; the wait parks the branch "
                "once (timed suspend) and the branch is run again (resubmission); parent context with 0..2 earlier operations")
def branch_ids(perm: int, is_map: bool, prior: int, nested_parent: bool):
    """
    pre: 0 <= perm < 6 and 0 <= prior <= 2
    post: True
    """
    from aws_durable_execution_sdk_python.config import CompletionConfig, MapConfig, ParallelConfig
    from aws_durable_execution_sdk_python.operation.map import MapExecutor
    from aws_durable_execution_sdk_python.operation.parallel import ParallelExecutor

    st = FakeState(None)   # waits stay STARTED: the branch parks at its wait
    root = mk_ctx(st)
    for _ in range(prior):
        root._create_step_id()
    parent_id = H(None, prior + 1) if nested_parent else None
    exec_ctx = root.create_child_context(parent_id) if nested_parent else root
    counter_before = exec_ctx._step_counter.get_current()

    def branch(ctx, *a):
        ctx.step(lambda c: "a", name="s1")
        ctx.wait(Duration(5), name="w")
        return ctx.step(lambda c: "b", name="s2")

    if is_map:
        ex = MapExecutor.from_items([10, 20, 30], branch, MapConfig())
    else:
        ex = ParallelExecutor.from_callables([branch, branch, branch], ParallelConfig())
    order = PERMS[perm]
    ids = {}
    for idx in order:
        before = len(st.log)
        try:
            ex._execute_item_in_child_context(exec_ctx, ex.executables[idx])
            h.check(False, "branch should park at its wait")
        except SuspendExecution:
            pass
        ids[idx] = [(u.name, u.operation_id, u.parent_id) for (u, _s) in st.log[before:] if u is not None]
    for idx in range(3):
        bid = H(parent_id, idx)   # branch ids use the 0-based branch index
        names = [x[0] for x in ids[idx]]
        h.check(names[0] == ("map-item-" if is_map else "parallel-branch-") + str(idx), "branch name")
        h.check(ids[idx][0][1] == bid and ids[idx][0][2] == parent_id, "branch id must depend on the branch index only; parent link = owning context")
        h.check(ids[idx][1] == ("s1", H(bid, 1), bid) and ids[idx][3] == ("w", H(bid, 2), bid), "inner ids must be positions inside the branch")
    h.check(exec_ctx._step_counter.get_current() == counter_before, "executing branches must not consume the owning context's call counter")
    # timer resubmission of branch 1: the wait is done now, the same positions must be found again
    import dataclasses
    wid = H(H(parent_id, 1), 2)
    st.ops[wid] = dataclasses.replace(st.ops[wid], status=ST.SUCCEEDED)
    before = len(st.log)
    try:
        r = ex._execute_item_in_child_context(exec_ctx, ex.executables[1])
    except SuspendExecution:
        r = None
        h.check(False, "a resumed branch parked again at a wait that is already done: its operations were numbered differently the second time")
    h.reach("resubmitted")
    new = [(u.name, u.operation_id, u.action) for (u, _s) in st.log[before:] if u is not None]
    h.check(r == "b")
    h.check([x[0] for x in new] == ["s2", "s2", ("map-item-1" if is_map else "parallel-branch-1")], "a resumed branch must find s1 and w recorded and only run s2")
    h.check(new[0][1] == H(H(parent_id, 1), 3), "resumed branch numbers its operations from 1 again")
    h.end()


@h.lemma(timeout=600, thorough_timeout=1800, funcs=["context.DurableContext._create_step_id_for_logical_step (AST -> z3 strings)"], kind="qz",
         bounds="parents: lowercase hex strings of equal length L in {1,4,8} (16 thorough); step numbers: any non-negative int rendered in decimal; z3 seq/regex theory")
def id_preimage_injective():
    import ast
    import os
    import z3
    from vk import py2smt as P

    fn = P.fn_ast(DurableContext._create_step_id_for_logical_step)
    # find:  step_id = <IfExp(test=self._parent_id, body=JoinedStr, orelse=Call(str, step))>
    assign = [s for s in fn.body if isinstance(s, ast.Assign)][0]
    e = assign.value
    if not (isinstance(e, ast.IfExp) and isinstance(e.body, ast.JoinedStr)):
        raise P.Untranslatable("unexpected shape of the id expression")
    step_name = fn.args.args[1].arg

    def build(parent, has_parent, dec):
        def tr(node):
            if isinstance(node, ast.JoinedStr):
                parts = [tr(v) for v in node.values]
                return z3.Concat(*parts) if len(parts) > 1 else parts[0]
            if isinstance(node, ast.FormattedValue):
                if node.conversion != -1 or node.format_spec is not None:
                    raise P.Untranslatable("format spec")
                return tr(node.value)
            if isinstance(node, ast.Constant) and isinstance(node.value, str):
                return z3.StringVal(node.value)
            if isinstance(node, ast.Attribute) and node.attr == "_parent_id":
                return parent
            if isinstance(node, ast.Name) and node.id == step_name:
                return dec
            if isinstance(node, ast.Call) and isinstance(node.func, ast.Name) and node.func.id == "str" and len(node.args) == 1:
                return tr(node.args[0])
            raise P.Untranslatable("unsupported node in id expression: " + ast.dump(node)[:80])
        if not (isinstance(e.test, ast.Attribute) and e.test.attr == "_parent_id"):
            raise P.Untranslatable("unexpected condition")
        return z3.If(has_parent, tr(e.body), tr(e.orelse))

    hexd = z3.Union(z3.Range("0", "9"), z3.Range("a", "f"))
    DEC = z3.Union(z3.Re("0"), z3.Concat(z3.Range("1", "9"), z3.Star(z3.Range("0", "9"))))
    Ls = [1, 4, 8, 16] if h.THOROUGH else [1, 4, 8]
    tmo = float(os.environ.get("VK_QZ_TIMEOUT", "600")) * 1000 / (len(Ls) + 1)
    queries = 0
    for L in Ls:
        p1, p2, n1, n2 = z3.Strings("p1 p2 n1 n2")
        h1, h2 = z3.Bools("h1 h2")
        s = z3.Solver()
        s.set("timeout", int(tmo))
        HEX = z3.Loop(hexd, L, L)
        for p, n in ((p1, n1), (p2, n2)):
            s.add(z3.InRe(p, HEX), z3.InRe(n, DEC))
        # the truthiness test `if self._parent_id` is has_parent (parents are non-empty strings)
        s.add(build(p1, h1, n1) == build(p2, h2, n2))
        s.add(z3.Or(h1 != h2, z3.And(h1, p1 != p2), n1 != n2))
        r = str(s.check())
        queries += 1
        if r == "sat":
            m = s.model()
            a = (bool(m[h1]), m[p1].as_string(), m[n1].as_string())
            b = (bool(m[h2]), m[p2].as_string(), m[n2].as_string())

            def real(x):
                c = DurableContext.__new__(DurableContext)
                c._parent_id = x[1] if x[0] else None
                return c._create_step_id_for_logical_step(int(x[2]))
            rep = real(a) == real(b)
            return {"verdict": "REFUTED", "queries": queries, "reproduced": rep, "call": f"id_preimage_injective()  # {a} vs {b}",
                    "detail": f"two positions share a pre-image string / id: {a} and {b} (L={L})"}
        if r != "unsat":
            return {"verdict": "UNKNOWN", "queries": queries, "detail": f"solver {r} at L={L}"}
    # vacuity guard: without the separator / with a shared string the query must be satisfiable
    g = z3.Solver()
    p1, n1, n2 = z3.Strings("p1 n1 n2")
    g.add(z3.InRe(p1, z3.Loop(hexd, 2, 2)), z3.InRe(n1, DEC), z3.InRe(n2, DEC), z3.Concat(p1, n1) == n2)
    if str(g.check()) != "sat":
        return {"verdict": "ERROR", "queries": queries, "detail": "vacuity guard failed"}
    return {"verdict": "CONFIRMED", "queries": queries + 1,
            "detail": f"unsat for L in {Ls}: the pre-image string determines (has_parent, parent, n); guard query (no separator) sat"}


# ---- parent links on every update kind (incl. RETRY / FAIL paths) and thread-safety of the per-context counter
@h.lemma(timeout=200, funcs=FUNCS + ["lambda_service.OperationUpdate.create_*"], reach=("end", "retry"),
         bounds="every update a step / wait_for_condition / child / wait / invoke / callback executor can emit (START, SUCCEED, FAIL, RETRY) from an absent or "
                "READY record, function ok/raises, retry yes/no: ParentId and Id are the identifier's")
def parent_links_all_updates(kind: int, ready: bool, attempt: int, fails: bool, retry: bool):
    """
    pre: 0 <= kind < 6 and 0 <= attempt
    post: True
    """
    from harness import ops
    from harness.common import OID, PID
    from harness.steps import make_record, run_step

    rec = make_record(ready, 2, attempt, -1, False, 0, True)
    if kind == 0:
        tr = run_step(rec, False, fails, retry, 3)
    elif kind == 1:
        def chk(s2):
            if fails:
                raise ValueError("x")
            return 1
        tr = ops.run_wfc(rec, 0, chk, lambda s2, n: WaitForConditionDecision.continue_waiting(Duration(3)) if retry else WaitForConditionDecision.stop_polling())
    elif kind == 2:
        def body():
            if fails:
                raise ValueError("x")
            return 1
        tr = ops.run_child(None, body)
    elif kind == 3:
        tr = ops.run_wait(None, 5)
    elif kind == 4:
        tr = ops.run_invoke(None, 1)
    else:
        tr = ops.run_callback_create(None)
    acts = []
    for (u, _s) in tr.state.log:
        if u is not None:
            acts.append(u.action)
            h.check(u.operation_id == OID and u.parent_id == PID, "an update lost its id / parent link")
    if A.RETRY in acts:
        h.reach("retry")
    h.check(len(acts) >= 1)
    h.end()


from harness import C19 as _C19  # noqa: E402

counter_thread_safety = _C19.scenario_counter_successor
counter_thread_safety.__module__ = __name__
