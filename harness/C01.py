"""C01 - completed operations are never re-executed; their recorded outcome is returned.

Inductive decomposition (composition argument stated in DESIGN.md, each link solver-checked):
  L1 *_terminal : for EVERY record with a terminal status the real executor enters no user function,
                  sends no update, and returns deserialize(record.result) / raises the recorded error.
                  (child with ReplayChildren: body re-traversed, still no update.)
  L2 *_durable  : for every non-terminal/absent record and every user-function behaviour, when
                  process() returns a value or raises the operation's final error, the last update for
                  the id is SUCCEED/FAIL and it was synchronous - so (backend contract) the next
                  invocation finds a terminal record and L1 applies.
  L3 pagination : real fetch_paginated_operations over a stub client: any split of the history into
                  pages (empty pages with a marker included, duplicates allowed) leaves every id mapped
                  to its last record.
"""
from __future__ import annotations

from vk import h
from harness.common import (
    ASSUMPTIONS_COMMON, CALLBACK_STATUSES, INVOKE_STATUSES, OID, PAYLOADS, PAYLOAD_VALUES, PID, ST, TERMINAL, FakeState,
)
from harness import ops
from harness.steps import STEP_FUNCS, make_record, run_step
from aws_durable_execution_sdk_python.exceptions import CallableRuntimeError, CallbackError, ExecutionError, InvocationError
from aws_durable_execution_sdk_python.lambda_service import OperationAction as A
from aws_durable_execution_sdk_python.lambda_service import Operation, OperationType, StateOutput
from aws_durable_execution_sdk_python.waits import WaitForConditionDecision
from aws_durable_execution_sdk_python.config import ChildConfig, Duration

ASSUMPTIONS = ASSUMPTIONS_COMMON + [
    "user functions are stubs with an entry counter and symbolic behaviour (return a fixed value / raise)",
    "composition over invocations (L2 + backend contract => terminal record next time => L1) is an induction argument stated in DESIGN.md, not a solver query",
    "L3: DurableServiceClient.get_execution_state is a stub serving solver-chosen pages",
]


def same(a, b):
    return type(a) is type(b) and a == b


def _value_of(payload_idx):
    return None if payload_idx < 0 else PAYLOAD_VALUES[payload_idx]


class _RawText:
    """custom SerDes for which EVERY text, the empty string included, is a valid encoding (raw text / pass-through)"""

    def serialize(self, value, ctx):
        return value[1] if isinstance(value, tuple) else value

    def deserialize(self, data, ctx):
        return ("decoded", data)


@h.lemma(timeout=120, funcs=STEP_FUNCS + ops.CHILD_FUNCS + ops.WFC_FUNCS, reach=("end", "empty_text"),
         bounds="SUCCEEDED step / child context / wait_for_condition record whose recorded result is ANY text (str, len<=2, the empty string included) under a custom "
                "raw-text serializer: the recorded result is what the configured serializer decodes from that text, nothing runs, nothing is sent")
def terminal_custom_serdes(kind: int, r: str):
    """
    pre: 0 <= kind < 3 and len(r) <= 2
    post: True
    """
    from harness.common import step_record
    from aws_durable_execution_sdk_python.lambda_service import ContextDetails, OperationSubType
    from aws_durable_execution_sdk_python.waits import WaitForConditionDecision as D
    sd = _RawText()
    if kind == 0:
        rec = step_record(ST.SUCCEEDED, 1, r, None, None, True)
        tr = run_step(rec, False, False, False, 3, serdes=sd)
    elif kind == 1:
        rec = Operation(OID, OperationType.CONTEXT, ST.SUCCEEDED, parent_id=PID, name="nm", sub_type=OperationSubType.RUN_IN_CHILD_CONTEXT,
                        context_details=ContextDetails(replay_children=False, result=r))
        tr = ops.run_child(rec, lambda: "body-ran", config=ChildConfig(serdes=sd))
    else:
        rec = step_record(ST.SUCCEEDED, 2, r, None, None, True)
        rec = Operation(rec.operation_id, rec.operation_type, rec.status, parent_id=rec.parent_id, name=rec.name,
                        sub_type=OperationSubType.WAIT_FOR_CONDITION, step_details=rec.step_details)
        tr = ops.run_wfc(rec, "INIT", lambda s_: "polled", lambda s_, n: D.stop_polling(), serdes=sd)
    if len(r) == 0:
        h.reach("empty_text")
    h.check(not tr.calls and not tr.state.log, "a completed operation ran its function or sent an update")
    h.check(tr.kind == "ret" and tr.value == ("decoded", r), "the recorded result must be decoded by the configured serializer, whatever its text")
    h.end()



# ---------------------------------------------------------------- L1: terminal records short-circuit
@h.lemma(timeout=90, funcs=STEP_FUNCS, bounds="step record SUCCEEDED/FAILED, attempt any int>=0, payload None or 4 encodings, error present/absent, both semantics")
def step_terminal(failed: bool, attempt: int, payload_idx: int, has_err: bool, has_details: bool, amo: bool, fails: bool, retry: bool):
    """
    pre: 0 <= attempt
    pre: -1 <= payload_idx < 4
    post: True
    """
    rec = make_record(True, 4 if failed else 3, attempt, payload_idx, has_err, 0, has_details)
    tr = run_step(rec, amo, fails, retry, 3)
    h.check(not tr.calls, "completed step re-executed")
    h.check(not tr.state.log, "completed step sent an update")
    if failed:
        h.check(tr.kind == "raise" and isinstance(tr.exc, CallableRuntimeError), "recorded failure must be raised")
        if has_err and has_details:
            h.check(tr.exc.message == "recorded-msg" and tr.exc.error_type == "RecordedType", "recorded error must be reproduced")
    else:
        want = _value_of(payload_idx) if has_details else None
        h.check(tr.kind == "ret" and same(tr.value, want), "recorded result must be returned")
    h.end()


@h.lemma(timeout=60, funcs=ops.WAIT_FUNCS, bounds="wait record SUCCEEDED; seconds any int>=1")
def wait_terminal(seconds: int):
    """
    pre: seconds >= 1
    post: True
    """
    tr = ops.run_wait(ops.wait_record(True, 1), seconds)
    h.check(tr.kind == "ret" and tr.value is None and not tr.state.log, "completed wait must return without writing")
    h.end()


@h.lemma(timeout=90, funcs=ops.INVOKE_FUNCS, bounds="invoke record in any terminal status; payload None or 3 JSON encodings; error present/absent")
def invoke_terminal(status_idx: int, payload_idx: int, has_err: bool, has_details: bool):
    """
    pre: 1 <= status_idx < 5
    pre: -1 <= payload_idx < 3
    post: True
    """
    payload = None if payload_idx < 0 else PAYLOADS[payload_idx]
    tr = ops.run_invoke(ops.invoke_record(True, status_idx, payload, has_err, has_details), {"x": 1})
    h.check(not tr.state.log, "completed invoke sent an update")
    if INVOKE_STATUSES[status_idx] is ST.SUCCEEDED:
        want = _value_of(payload_idx) if has_details else None
        h.check(tr.kind == "ret" and same(tr.value, want), "recorded invoke result must be returned")
    else:
        h.check(tr.kind == "raise" and isinstance(tr.exc, CallableRuntimeError), "recorded invoke failure must be raised")
        if has_err and has_details:
            h.check(tr.exc.message == "inv-msg" and tr.exc.error_type == "InvType")
    h.end()


ERR_MSGS = [None, "", "why"]


@h.lemma(timeout=90, funcs=ops.CALLBACK_FUNCS,
         bounds="callback record in any terminal status; callback id any str (len<=3); payload None or any str (len<=3); error absent / message None, '' or text")
def callback_terminal(status_idx: int, cbid: str, has_payload: bool, payload: str, has_err: bool, msg_idx: int):
    """
    pre: 1 <= status_idx < 6
    pre: len(cbid) <= 3 and len(payload) <= 3
    pre: 0 <= msg_idx < 3
    post: True
    """
    err_msg = ERR_MSGS[msg_idx]
    rec = ops.callback_record(True, status_idx, cbid, payload if has_payload else None, has_err, err_msg)
    tr = ops.run_callback_create(rec)
    h.check(tr.kind == "ret" and tr.value == cbid, "create_callback must return the recorded id whatever the outcome")
    h.check(not tr.state.log, "completed callback sent an update")
    tr2 = ops.run_callback_result(tr.state, "cb")
    h.check(not tr.state.log)
    if CALLBACK_STATUSES[status_idx] is ST.SUCCEEDED:
        h.check(tr2.kind == "ret" and tr2.value == (payload if has_payload else None), "delivered payload must be returned unchanged")
    else:
        h.check(tr2.kind == "raise" and isinstance(tr2.exc, CallbackError), "failed callback must raise CallbackError from result()")
        h.check(tr2.exc.args[0] == (err_msg if (has_err and err_msg) else "Callback failed"))
    h.end()


@h.lemma(timeout=90, funcs=ops.WFC_FUNCS, bounds="wait_for_condition record SUCCEEDED/FAILED; payload None or 4 encodings")
def wfc_terminal(failed: bool, attempt: int, payload_idx: int, has_err: bool, has_details: bool):
    """
    pre: 0 <= attempt
    pre: -1 <= payload_idx < 4
    post: True
    """
    rec = make_record(True, 4 if failed else 3, attempt, payload_idx, has_err, 0, has_details)
    tr = ops.run_wfc(rec, "init", lambda s: "polled", lambda s, n: WaitForConditionDecision.stop_polling())
    h.check(not tr.calls and not tr.strategy_calls, "completed condition polled again")
    h.check(not tr.state.log, "completed condition sent an update")
    if failed:
        h.check(tr.kind == "raise" and isinstance(tr.exc, CallableRuntimeError))
    else:
        want = _value_of(payload_idx) if has_details else None
        h.check(tr.kind == "ret" and same(tr.value, want), "recorded state must be returned")
    h.end()


@h.lemma(timeout=90, funcs=ops.CHILD_FUNCS, reach=("end", "replaychildren"),
         bounds="context record SUCCEEDED/FAILED; replay_children flag; payload None or 4 encodings; body returns or raises")
def child_terminal(failed: bool, payload_idx: int, has_err: bool, has_details: bool, replay_children: bool, body_fails: bool):
    """
    pre: -1 <= payload_idx < 4
    post: True
    """
    payload = None if payload_idx < 0 else PAYLOADS[payload_idx]
    rec = ops.context_record(True, 2 if failed else 1, payload, has_err, replay_children, has_details)

    def body():
        if body_fails:
            raise ValueError("body")
        return "fresh"

    tr = ops.run_child(rec, body)
    if failed:
        h.check(not tr.calls and not tr.state.log, "failed context touched again")
        h.check(tr.kind == "raise" and isinstance(tr.exc, CallableRuntimeError))
        if has_err and has_details:
            h.check(tr.exc.message == "ctx-msg")
    elif replay_children and has_details:
        h.reach("replaychildren")
        # the only exception of the property: the body is re-traversed, but nothing is recorded again
        h.check(len(tr.calls) == 1)
        if not body_fails:
            h.check(not tr.state.log, "ReplayChildren replay must not send a new record")
            h.check(tr.kind == "ret" and tr.value == "fresh")
    else:
        h.check(not tr.calls and not tr.state.log, "completed context re-executed")
        want = _value_of(payload_idx) if has_details else None
        h.check(tr.kind == "ret" and same(tr.value, want), "recorded context result must be returned")
    h.end()


# ---------------------------------------------------------------- L2: outcomes are durable before they are visible
@h.lemma(timeout=120, funcs=STEP_FUNCS, reach=("end", "ret", "raise"),
         bounds="step record absent/STARTED/READY, any attempt, both semantics, function returns/raises, strategy arbitrary")
def step_durable(exists: bool, ready: bool, attempt: int, has_details: bool, amo: bool, fails: bool, retry: bool, delay: int):
    """
    pre: 0 <= attempt
    pre: 0 <= delay
    post: True
    """
    rec = make_record(exists, 2 if ready else 0, attempt, -1, False, 0, has_details)
    tr = run_step(rec, amo, fails, retry, delay)
    ups = tr.state.updates_for()
    if tr.kind == "ret":
        h.reach("ret")
        h.check(len(ups) > 0 and ups[-1][0].action is A.SUCCEED and ups[-1][1], "result returned before a synchronous SUCCEED")
        h.check(tr.state.ops[OID].status is ST.SUCCEEDED)
    if tr.kind == "raise" and not isinstance(tr.exc, ExecutionError):
        h.reach("raise")
        h.check(len(ups) > 0 and ups[-1][0].action is A.FAIL and ups[-1][1], "final error raised before a synchronous FAIL")
        h.check(tr.state.ops[OID].status is ST.FAILED)
    h.end()


@h.lemma(timeout=120, funcs=ops.CHILD_FUNCS, reach=("end", "ret", "raise"),
         bounds="context record absent/STARTED; body returns a value, raises ValueError, or raises an InvocationError")
def child_durable(exists: bool, behaviour: int, has_details: bool):
    """
    pre: 0 <= behaviour < 3
    post: True
    """
    rec = ops.context_record(exists, 0, None, False, False, has_details)

    def body():
        if behaviour == 1:
            raise ValueError("body")
        if behaviour == 2:
            raise InvocationError("inv")
        return [1, 2]

    tr = ops.run_child(rec, body)
    ups = tr.state.updates_for()
    h.check(len(tr.calls) == 1)
    if tr.kind == "ret":
        h.reach("ret")
        h.check(ups[-1][0].action is A.SUCCEED and ups[-1][1], "context result returned before a synchronous SUCCEED")
        import aws_durable_execution_sdk_python.serdes as _SER
        h.check(_SER.deserialize(None, ups[-1][0].payload, "o", "a") == [1, 2], "the recorded payload must be the serialized result")
    else:
        h.reach("raise")
        h.check(tr.kind == "raise")
        h.check(ups[-1][0].action is A.FAIL and ups[-1][1], "context error raised before a synchronous FAIL")
        h.check(isinstance(tr.exc, InvocationError if behaviour == 2 else CallableRuntimeError))
    h.end()


@h.lemma(timeout=120, funcs=ops.WFC_FUNCS, reach=("end", "ret", "raise", "suspend"),
         bounds="condition record absent/STARTED/READY, any attempt; check returns or raises; strategy stop/continue with any delay>=0")
def wfc_durable(exists: bool, ready: bool, attempt: int, has_details: bool, check_fails: bool, stop: bool, delay: int):
    """
    pre: 0 <= attempt
    pre: 0 <= delay
    post: True
    """
    rec = make_record(exists, 2 if ready else 0, attempt, -1, False, 0, has_details)

    def chk(s):
        if check_fails:
            raise ValueError("chk")
        return "polled"

    def decide(s, n):
        return WaitForConditionDecision.stop_polling() if stop else WaitForConditionDecision.continue_waiting(Duration(delay))

    tr = ops.run_wfc(rec, "init", chk, decide)
    ups = tr.state.updates_for()
    h.check(len(tr.calls) == 1)
    if tr.kind == "ret":
        h.reach("ret")
        h.check(ups[-1][0].action is A.SUCCEED and ups[-1][1], "condition result returned before a synchronous SUCCEED")
    elif tr.kind == "raise":
        h.reach("raise")
        h.check(ups[-1][0].action is A.FAIL and ups[-1][1], "condition error raised before a synchronous FAIL")
    else:
        h.reach("suspend")
        h.check(ups[-1][0].action is A.RETRY and ups[-1][1], "suspended before a synchronous RETRY")
    h.end()


# ---------------------------------------------------------------- L3: pagination
class _Client:
    def __init__(self, pages):
        self.pages = pages  # list of (ops, next_marker)
        self.calls = []

    def get_execution_state(self, durable_execution_arn, checkpoint_token, next_marker, max_items=1000):
        self.calls.append((checkpoint_token, next_marker))
        idx = int(next_marker[1:])
        ops_, nm = self.pages[idx]
        return StateOutput(operations=ops_, next_marker=nm)


IDS = ["a", "b", "c", "d"]
STATS = [ST.STARTED, ST.SUCCEEDED, ST.FAILED, ST.PENDING]
MAXREC = 4 if h.THOROUGH else 3


@h.lemma(timeout=300, thorough_timeout=1800, funcs=["state.ExecutionState.fetch_paginated_operations", "state.ExecutionState.get_checkpoint_result"],
         reach=("end", "multi", "emptypage"),
         bounds="n <= 3 records (4 thorough) with every id-equality pattern (duplicates allowed; canonical id naming), first page of any size + <= 3 further pages with solver-chosen sizes (0 allowed, marker still set)")
def pagination(n: int, i0: int, i1: int, i2: int, i3: int, s0: int, s1: int, s2: int, s3: int, first: int, npages: int,
               c0: int, c1: int, c2: int):
    """
    pre: 0 <= n <= MAXREC
    pre: i0 == 0 and 0 <= i1 <= 1 and 0 <= i2 <= max(i0, i1) + 1 and 0 <= i3 <= max(i0, i1, i2) + 1
    pre: s0 == 0 and s1 == 1 and s2 == 2 and s3 == 3
    pre: 0 <= first <= n and 0 <= npages <= 3
    pre: 0 <= c0 and 0 <= c1 and 0 <= c2
    post: True
    """
    from aws_durable_execution_sdk_python.state import ExecutionState

    id_idx = [i0, i1, i2, i3][:n]
    st_idx = [s0, s1, s2, s3][:n]
    cuts = [c0, c1, c2][:npages]
    if first + sum(cuts) != n:
        return
    recs = [Operation(IDS[id_idx[i]], OperationType.STEP, STATS[st_idx[i]], name=f"r{i}") for i in range(n)]
    pages = []
    pos = first
    for k, c in enumerate(cuts):
        nm = f"m{k + 1}" if k + 1 < len(cuts) else None
        pages.append((recs[pos:pos + c], nm))
        pos += c
    cl = _Client(pages)
    st = ExecutionState("arn", "tok0", {}, cl)
    st.fetch_paginated_operations(recs[:first], "tok-x", "m0" if cuts else None)
    h.check(len(cl.calls) == len(cuts), "every page must be fetched exactly once")
    h.check(all(c[0] == "tok-x" for c in cl.calls))
    if len(cuts) >= 2:
        h.reach("multi")
    if len(cuts) >= 2 and cuts[0] == 0 and cuts[1] > 0:
        h.reach("emptypage")
    for j in range(4):
        last = None
        for i in range(n):
            if id_idx[i] == j:
                last = recs[i]
        got = st.operations.get(IDS[j])
        h.check(got is last, "an id must map to its last record in history order")
        cr = st.get_checkpoint_result(IDS[j])
        h.check(cr.is_existent() == (last is not None))
        if last is not None:
            h.check(cr.status is last.status)
    h.end()
