"""C11 - the update stream is always a valid operation history.

Lifecycle automaton per operation (the backend's expectation, from the statement):
    absent --START--> STARTED --RETRY--> PENDING --(timer)--> READY --START--> STARTED ...
    STARTED --SUCCEED/FAIL--> terminal ; nothing is accepted in a terminal state, START is refused in STARTED/PENDING,
    RETRY/SUCCEED/FAIL are refused unless the current attempt has a START.
For every handler kind and EVERY reachable record (= every history earlier invocations, crashed or not, can leave)
the updates logged by one real process() are accepted by the automaton started in the record's state, and each
update is well-formed for its kind (type, sub-type, id, parent link, name).  A child context's START is sent
before its body (and therefore before any descendant's first update; FIFO delivery is C05).
"""
from __future__ import annotations

from vk import h
from harness.common import (
    ASSUMPTIONS_COMMON, CALLBACK_STATUSES, CONTEXT_STATUSES, INVOKE_STATUSES, OID, PID, ST, STEP_STATUSES, TERMINAL, WAIT_STATUSES,
)
from harness import ops
from harness.steps import STEP_FUNCS, make_record, run_step
from aws_durable_execution_sdk_python.config import ChildConfig, Duration
from aws_durable_execution_sdk_python.lambda_service import OperationAction as A
from aws_durable_execution_sdk_python.lambda_service import OperationSubType, OperationType
from aws_durable_execution_sdk_python.waits import WaitForConditionDecision

ASSUMPTIONS = ASSUMPTIONS_COMMON + [
    "the automaton is the specification (derived from the property statement); the backend's timer transition PENDING->READY happens between invocations",
    "execution-level result record (at most once, last) is checked with the wrapper in C18/C16, not here",
    "determinism of user code: the body of a SUCCEEDED ReplayChildren context returns again when re-traversed (it neither raises nor suspends)",
]


def accepted(status, actions):
    """Run the lifecycle automaton; returns (ok, reason)."""
    for a in actions:
        if status in TERMINAL:
            return False, "update after/for a terminal record"
        if a is A.START:
            if status is ST.STARTED:
                return False, "second START for the same attempt"
            if status is ST.PENDING:
                return False, "START while a retry is pending"
            status = ST.STARTED
        elif a is A.RETRY:
            if status is not ST.STARTED:
                return False, "RETRY without a START for this attempt"
            status = ST.PENDING
        elif a is A.SUCCEED or a is A.FAIL:
            if status is not ST.STARTED:
                return False, "terminal record without a START for this attempt"
            status = ST.SUCCEEDED if a is A.SUCCEED else ST.FAILED
        else:
            return False, "unexpected action"
    return True, ""


def well_formed(st, otype, subtype):
    for (u, _sync) in st.log:
        if u is None:
            continue
        h.check(u.operation_id == OID, "update for a foreign id")
        h.check(u.operation_type is otype, "wrong operation type for this kind")
        h.check(u.sub_type is subtype, "wrong sub-type for this kind")
        h.check(u.parent_id == PID and u.name == "nm", "parent link / name must be the identifier's")


def verdict(rec, st, otype, subtype):
    ok, why = accepted(rec.status if rec else None, st.actions())
    h.check(ok, "invalid history: " + why)
    well_formed(st, otype, subtype)


@h.lemma(timeout=200, funcs=STEP_FUNCS, reach=("end", "writes"),
         bounds="step: record absent or any of 5 statuses, attempt any int>=0, details present/absent, both semantics, function ok/raises, strategy arbitrary")
def step_history(exists: bool, status_idx: int, attempt: int, has_details: bool, has_err: bool, amo: bool, fails: bool, retry: bool, delay: int):
    """
    pre: 0 <= status_idx < 5 and 0 <= attempt and 0 <= delay
    post: True
    """
    rec = make_record(exists, status_idx, attempt, 0, has_err, 2, has_details)
    tr = run_step(rec, amo, fails, retry, delay)
    if tr.state.log:
        h.reach("writes")
    verdict(rec, tr.state, OperationType.STEP, OperationSubType.STEP)
    h.end()


@h.lemma(timeout=200, funcs=ops.WFC_FUNCS, reach=("end", "writes"),
         bounds="wait_for_condition: record absent or any of 5 statuses, attempt any int>=0, check ok/raises, strategy stop/continue with any delay")
def wfc_history(exists: bool, status_idx: int, attempt: int, has_details: bool, has_payload: bool, check_fails: bool, stop: bool, delay: int):
    """
    pre: 0 <= status_idx < 5 and 0 <= attempt and 0 <= delay
    post: True
    """
    rec = make_record(exists, status_idx, attempt, 1 if has_payload else -1, False, 2, has_details)
    if rec is not None:
        import dataclasses

        rec = dataclasses.replace(rec, sub_type=OperationSubType.WAIT_FOR_CONDITION)

    def chk(s):
        if check_fails:
            raise ValueError("chk")
        return 1

    tr = ops.run_wfc(rec, 0, chk, lambda s, n: WaitForConditionDecision.stop_polling() if stop else WaitForConditionDecision.continue_waiting(Duration(delay)))
    if tr.state.log:
        h.reach("writes")
    verdict(rec, tr.state, OperationType.STEP, OperationSubType.WAIT_FOR_CONDITION)
    h.end()


@h.lemma(timeout=120, funcs=ops.WAIT_FUNCS, bounds="wait: record absent/STARTED/SUCCEEDED, seconds any int>=1")
def wait_history(exists: bool, status_idx: int, seconds: int):
    """
    pre: 0 <= status_idx < 2 and seconds >= 1
    post: True
    """
    rec = ops.wait_record(exists, status_idx)
    tr = ops.run_wait(rec, seconds)
    verdict(rec, tr.state, OperationType.WAIT, OperationSubType.WAIT)
    if not exists:
        h.check(tr.state.log[0][0].wait_options.wait_seconds == seconds and tr.state.log[0][1])
    h.end()


@h.lemma(timeout=120, funcs=ops.CALLBACK_FUNCS, bounds="callback: record absent or any of 6 statuses")
def callback_history(exists: bool, status_idx: int, has_err: bool):
    """
    pre: 0 <= status_idx < 6
    post: True
    """
    rec = ops.callback_record(exists, status_idx, "cb", None, has_err)
    tr = ops.run_callback_create(rec, 5, 0)
    ops.run_callback_result(tr.state, "cb")
    verdict(rec, tr.state, OperationType.CALLBACK, OperationSubType.CALLBACK)
    h.end()


@h.lemma(timeout=120, funcs=ops.INVOKE_FUNCS, bounds="invoke: record absent or any of 5 statuses; START response STARTED or terminal")
def invoke_history(exists: bool, status_idx: int, has_err: bool, start_status_idx: int):
    """
    pre: 0 <= status_idx < 5 and 0 <= start_status_idx < 5
    post: True
    """
    rec = ops.invoke_record(exists, status_idx, None, has_err)
    tr = ops.run_invoke(rec, 1, 0, None, INVOKE_STATUSES[start_status_idx])
    verdict(rec, tr.state, OperationType.CHAINED_INVOKE, OperationSubType.CHAINED_INVOKE)
    h.end()


SUBS = [OperationSubType.RUN_IN_CHILD_CONTEXT, OperationSubType.MAP, OperationSubType.PARALLEL, OperationSubType.MAP_ITERATION,
        OperationSubType.PARALLEL_BRANCH, OperationSubType.WAIT_FOR_CALLBACK]


@h.lemma(timeout=200, funcs=ops.CHILD_FUNCS, reach=("end", "writes", "start_first"),
         bounds="child context (6 sub-types): record absent/STARTED/SUCCEEDED/FAILED, ReplayChildren flag, body returns / raises / suspends")
def child_history(exists: bool, status_idx: int, replay_children: bool, has_details: bool, behaviour: int, sub: int):
    """
    pre: 0 <= status_idx < 3 and 0 <= behaviour < 3 and 0 <= sub < 6
    post: True
    """
    from aws_durable_execution_sdk_python.exceptions import SuspendExecution

    rec = ops.context_record(exists, status_idx, "1", False, replay_children, has_details, SUBS[sub])
    if exists and status_idx == 1 and replay_children and has_details and behaviour != 0:
        return  # determinism: a body that completed before completes again when re-traversed over its recorded children
    seen = []

    def body():
        seen.append(list(tr_holder[0].state.events) if tr_holder else None)
        if behaviour == 1:
            raise ValueError("body")
        if behaviour == 2:
            raise SuspendExecution("park")
        return 3

    tr_holder = []
    from harness.common import FakeState

    st = FakeState(rec)
    tr_holder.append(type("T", (), {"state": st})())
    tr = ops.run_child(rec, body, ChildConfig(sub_type=SUBS[sub]), state=st)
    if st.log:
        h.reach("writes")
    verdict(rec, st, OperationType.CONTEXT, SUBS[sub])
    if not exists and tr.calls:
        h.reach("start_first")
        ev = st.events
        h.check(ev[0][0] == "update" and ev[0][1] is A.START and ev.index(("ufn",)) > 0,
                "a context's START must be handed over before its body (and so before any descendant's first update)")
    h.end()


# "a child's first update never precedes its parent context's start" relies on FIFO delivery of the pipeline, including across the overflow queue
# (lemma shared with C05)
from harness import C05 as _C05  # noqa: E402

fifo_delivery_across_overflow = _C05.stream_sizes
fifo_delivery_across_overflow.__module__ = __name__
