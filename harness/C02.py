"""C02 - replay transparency: interruptions never change what the workflow observes.

Composed world (harness/inv.py): the real wrapper, context, executors, state and (coroutine) checkpoint thread against a
stateful backend model.  A deterministic workflow template with SYMBOLIC step values is executed twice:
    baseline : no crash, history delivered in one page
    variant  : a process crash at a solver-chosen (invocation, API call, before/after apply), history paginated with a
               solver-chosen page size, consumer steps interleaved at the caller's preemption points
Oracle: at every durable-call position, every invocation of either run that gets past the position observes the same value
(type-exact) or the same exception class and message; both runs end with the same final output.
"""
from __future__ import annotations

import decimal

from vk import h
from harness import common  # noqa: F401  (lowered serdes, clock)
from harness.inv import ASSUMPTIONS_INV, Backend, run_execution
import aws_durable_execution_sdk_python.execution as X
import aws_durable_execution_sdk_python.serdes as SER
from aws_durable_execution_sdk_python.config import Duration, StepConfig
from aws_durable_execution_sdk_python.exceptions import CallableRuntimeError, CallbackError
from aws_durable_execution_sdk_python.retries import RetryDecision
from aws_durable_execution_sdk_python.waits import WaitForConditionConfig, WaitForConditionDecision

if h.MODE == "sx":
    from vk.jsonmodel import JsonModel

    SER.json = JsonModel
    X.json = JsonModel

    def _mentions_big(v):
        if isinstance(v, str):
            return v == "BIG"
        if isinstance(v, (list, tuple)):
            return any(_mentions_big(x) for x in v)
        if isinstance(v, dict):
            return any(_mentions_big(x) for x in v.values())
        return False

    def _size(v):
        # a value that mentions "BIG" serializes to 300000 characters (> 256 KiB checkpoint limit), everything else to 10
        return 300000 if _mentions_big(v) else 10

    JsonModel.size_of = staticmethod(_size)

# in a concrete replay the marker really is a 300000-character string (the real json then produces a text over the limit)
BIG = "BIG" if h.MODE == "sx" else "B" * 300000

ASSUMPTIONS = ASSUMPTIONS_INV + [
    "json inside serdes.py and execution.py is the opaque model vk/jsonmodel.py (every text has size 10); replays use the real json",
    "workflow templates are deterministic and let invocation-level errors propagate; step values are symbolic ints placed in int / list / tuple / dict results",
    "bounds: <= 6 invocations, one crash per execution, page size none/1/2, <= 2 interleaving points with 0..3 consumer steps",
]
FUNCS = ["execution.durable_execution.wrapper", "context.DurableContext.*", "operation.*.process", "state.ExecutionState.* (create_checkpoint, "
         "checkpoint_batches_forever, fetch_paginated_operations, track_replay)", "serdes.serialize/deserialize", "lambda_service.OperationUpdate.create_*"]

NO_RETRY = StepConfig(retry_strategy=lambda e, n: RetryDecision.no_retry())


def same(a, b):
    if isinstance(a, (list, tuple)):
        return type(a) is type(b) and len(a) == len(b) and all(same(x, y) for x, y in zip(a, b))
    if isinstance(a, dict):
        return isinstance(b, dict) and len(a) == len(b) and all(k in b and same(a[k], b[k]) for k in a)
    if isinstance(a, bool) or isinstance(b, bool):
        return isinstance(a, bool) and isinstance(b, bool) and a == b
    if isinstance(a, int):
        return isinstance(b, int) and a == b
    if isinstance(a, decimal.Decimal):   # equal Decimals may still differ in scale (1.10 vs 1.1): user code that formats them would diverge
        return isinstance(b, decimal.Decimal) and a.as_tuple() == b.as_tuple()
    return type(a) is type(b) and a == b


class Obs:
    """per-position observations across invocations"""

    def __init__(self):
        self.at = {}
        self.inv = 0

    def see(self, pos, kind, val):
        self.at.setdefault(pos, []).append((self.inv, kind, val))

    def consistent(self, other=None):
        for pos, lst in self.at.items():
            both = list(lst) + (other.at.get(pos, []) if other else [])
            k0, v0 = both[0][1], both[0][2]
            for (_i, k, v) in both[1:]:
                h.check(k == k0, "a durable call delivered a value in one invocation and an exception in another (or a different exception class)")
                h.check(same(v, v0), "a durable call delivered a different value/message when replayed")


def observe(obs, pos, fn):
    try:
        v = fn()
    except CallableRuntimeError as e:
        obs.see(pos, "CallableRuntimeError", (e.message, e.error_type))
        return ("exc", "CallableRuntimeError")
    except CallbackError as e:
        obs.see(pos, "CallbackError", e.args[0])
        return ("exc", "CallbackError")
    except ValueError as e:
        obs.see(pos, "ValueError", e.args[0] if e.args else None)
        return ("exc", "ValueError")
    obs.see(pos, "value", v)
    return ("val", v)


def variant_backend(ci: int, cc: int, after: bool, psel: int):
    be = Backend(page_size=[None, 1, 2][psel], empty_pages=(psel == 1))
    if ci > 0:
        be.crash_call = (ci, cc, "after" if after else "before")
    return be


def final_of(res):
    if res.final is None:
        return None
    out = dict(res.final)
    r = out.get("Result")
    if r is not None and h.MODE == "sx":
        out["Result"] = X.json.loads(r)
    elif r is not None:
        import json
        out["Result"] = json.loads(r)
    return out


def compare_runs(make_handler, ci, cc, after, psel, k0, k1, setup=None, race=False):
    ob, ov = Obs(), Obs()
    b0 = Backend()
    if setup:
        setup(b0)
    r0 = run_execution(make_handler(ob), b0, on_invocation=lambda i: setattr(ob, "inv", i))
    h.check(r0.final is not None and r0.deadlock is None, "baseline run did not terminate")
    b1 = variant_backend(ci, cc, after, psel)
    if setup:
        setup(b1)
    r1 = run_execution(make_handler(ov), b1, ksteps=[k0, k1], on_invocation=lambda i: setattr(ov, "inv", i), race=race)
    h.check(r1.deadlock is None, "an invocation blocked forever")
    h.check(r1.final is not None, "interrupted run did not terminate within 6 invocations")
    if any(o == ("crash",) for o in r1.outputs):
        h.reach("crashed")
    if len(r1.outputs) > len(r0.outputs):
        h.reach("extra_invocation")
    ob.consistent()
    ov.consistent(ob)
    f0, f1 = final_of(r0), final_of(r1)
    h.check(f0["Status"] == f1["Status"], "final status depends on where the execution was interrupted")
    h.check(same(f0.get("Result"), f1.get("Result")), "final result depends on where the execution was interrupted")
    h.check(f0.get("Error") == f1.get("Error"), "final error depends on where the execution was interrupted")
    return r0, r1


_B = ("crash at invocation 0(none)..3 x API call 1..4 x before/after apply; consumer runs 0 or 2 steps ahead right after the first hand-over of each invocation; ")
PAGE_SIZES = [None, 1, 2]
PAGE = [None, "1 (each continuation preceded by an empty page with a marker)", 2]


def tmpl_steps_wait_child(a, b, c, _flag):
    def setup(be):
        be.input_payload = X.json.dumps({"k": 5})

    def mk(obs):
        def handler(event, ctx):
            obs.see("EVENT", "value", event)     # the handler's input is part of what a deterministic workflow branches on
            x = observe(obs, "A", lambda: ctx.step(lambda s: a, name="A"))
            ctx.wait(Duration(5), name="W")

            def child(cc_):
                p = observe(obs, "B", lambda: cc_.step(lambda s: (b, "k"), name="B"))
                q = observe(obs, "C", lambda: cc_.step(lambda s: {"n": c, "d": decimal.Decimal("0.10")}, name="C"))
                return [p[1], q[1]]
            y = observe(obs, "CH", lambda: ctx.run_in_child_context(child, name="CH"))
            return [x[1], y[1]]
        return handler
    return mk, setup


def tmpl_failures_caught(g, _b, _c, empty_msg):
    def mk(obs):
        def handler(event, ctx):
            def boom(s):
                if empty_msg:
                    raise ValueError("")
                raise ValueError("boom")
            f = observe(obs, "F", lambda: ctx.step(boom, name="F", config=NO_RETRY))
            ctx.wait(Duration(5), name="W")
            gg = observe(obs, "G", lambda: ctx.step(lambda s: g if f[0] == "exc" else -g, name="G"))

            def child(c2):
                c2.step(lambda s: 1, name="H")
                raise ValueError("child-fail")
            ch = observe(obs, "CH", lambda: ctx.run_in_child_context(child, name="CH"))
            ctx.wait(Duration(5), name="W2")
            return [f[1], gg[1], ch[1]]
        return handler
    return mk, None


def tmpl_condition_callback_invoke(seed, _b, _c, ok):
    def setup(be):
        be.callback_outcome["CB"] = ("SUCCEEDED", "cb-payload") if ok else ("FAILED", "cb-failed")
        be.invoke_outcome["INV"] = ("SUCCEEDED", SER.DEFAULT_JSON_SERDES.serialize([seed], None)) if ok else ("FAILED", "inv-failed")

    def mk(obs):
        def handler(event, ctx):
            def check(state, c):
                return (state[0] + 1, "p")

            def strat(state, attempt):
                # decided from the carried STATE: a poll that forgets the state recorded by the previous attempt never reaches the target
                return WaitForConditionDecision.stop_polling() if state[0] >= seed + 2 else WaitForConditionDecision.continue_waiting(Duration(2))
            s = observe(obs, "WFC", lambda: ctx.wait_for_condition(check, WaitForConditionConfig(strat, (seed, "p")), name="WFC"))
            cb = ctx.create_callback(name="CB")
            obs.see("CBID", "value", cb.callback_id)
            m = observe(obs, "M", lambda: ctx.step(lambda st: seed + 1, name="M"))
            r = observe(obs, "CBR", cb.result)
            v = observe(obs, "INV", lambda: ctx.invoke("fn", {"k": seed}, name="INV"))
            return [s[1], m[1], r[1], v[1]]
        return handler
    return mk, setup


def tmpl_large_child(a, b, _c, with_summary):
    """a child context whose result exceeds the checkpoint limit: recorded as summary + ReplayChildren, rebuilt on replay"""
    from aws_durable_execution_sdk_python.config import ChildConfig

    def mk(obs):
        def handler(event, ctx):
            def child(c2):
                p = observe(obs, "P", lambda: c2.step(lambda s: a, name="P"))
                q = observe(obs, "Q", lambda: c2.step(lambda s: (b,), name="Q"))
                return [p[1], BIG, q[1]]
            cfg = ChildConfig(summary_generator=(lambda r: "summary")) if with_summary else None
            y = observe(obs, "CH", lambda: ctx.run_in_child_context(child, name="CH", config=cfg))
            ctx.wait(Duration(5), name="W")
            z = observe(obs, "Z", lambda: ctx.step(lambda s: 0 if y[1] is None else len(y[1]), name="Z"))
            return [a, z[1]]
        return handler
    return mk, None


def tmpl_wrapped_suspenders(seed, _b, _c, ok):
    """wait / callback / invoke each issued as the FIRST operation of a fresh child context: the context's START (asynchronous) and the
    operation's START (synchronous) travel in one batch, so the response carries two operations and is paginated when the page size is 1"""
    def setup(be):
        be.callback_outcome["WFCB create callback id"] = ("SUCCEEDED", "cb-payload") if ok else ("FAILED", "cb-failed")
        be.invoke_outcome["INV"] = ("SUCCEEDED", SER.DEFAULT_JSON_SERDES.serialize([seed], None)) if ok else ("FAILED", "inv-failed")

    def mk(obs):
        def handler(event, ctx):
            def c_wait(c2):
                c2.wait(Duration(5), name="W1")
                return seed
            a = observe(obs, "CW", lambda: ctx.run_in_child_context(c_wait, name="CW"))

            def submitter(callback_id, wctx):
                obs.see("CBID", "value", callback_id)
            r = observe(obs, "WFCB", lambda: ctx.wait_for_callback(submitter, name="WFCB"))

            def c_inv(c2):
                return c2.invoke("fn", {"k": seed}, name="INV")
            v = observe(obs, "CI", lambda: ctx.run_in_child_context(c_inv, name="CI"))
            return [a[1], r[1], v[1]]
        return handler
    return mk, setup


def tmpl_map_tolerated(a, b, _c, big):
    """map over three items on the pool model; item 1 fails (tolerated); results optionally exceed the checkpoint limit"""
    from aws_durable_execution_sdk_python.config import CompletionConfig, MapConfig
    from harness import exec_world as XW

    def mk(obs):
        def handler(event, ctx):
            XW.World()

            def item(c2, x, i, items):
                if i == 1:
                    raise ValueError("item-failed")
                v = c2.step(lambda s: x + a, name="S")
                return [v, BIG] if big else [v]
            cfg = MapConfig(max_concurrency=2, completion_config=CompletionConfig(tolerated_failure_count=1))

            def run():
                r = ctx.map([b, 0, 1], item, name="MAP", config=cfg)
                return [[it.status.value, None if it.result is None else it.result[0], None if it.error is None else it.error.message] for it in r.all] + \
                       [r.completion_reason.value]
            m = observe(obs, "MAP", run)
            ctx.wait(Duration(5), name="W")
            z = observe(obs, "Z", lambda: ctx.step(lambda s: len(m[1]) if m[0] == "val" else -1, name="Z"))
            return [m[1], z[1]]
        return handler
    return mk, None


TEMPLATES = {
    "large_child": (tmpl_large_child, "y=child{step P (int); step Q (tuple)} returning a >256KB value (summary generator yes/no); wait; z=step using y; return"),
    "steps_wait_child": (tmpl_steps_wait_child, "x=step A (int a); wait; y=child{step B -> (b,'k'); step C -> {'n': c, 'd': Decimal('0.10')}}; return [x, y]"),
    "failures_caught": (tmpl_failures_caught, "try step F raises ValueError (no retry) except CallableRuntimeError -> branch; wait; step G(int); failing child caught; wait; return"),
    "wrapped_suspenders": (tmpl_wrapped_suspenders, "child{wait}; wait_for_callback (child{create_callback; submitter step; result}, succeeds/fails); child{invoke} (succeeds/fails): each "
                           "synchronous START is batched with its context's asynchronous START, so its response spans two pages at page size 1"),
    "map_tolerated": (tmpl_map_tolerated, "map([b,0,1]) on the pool model, item 1 raises, tolerated_failure_count=1, results small or >256KB; wait; step using the BatchResult; "
                      "observed: per-item status/result/error message and completion_reason"),
    "condition_callback_invoke": (tmpl_condition_callback_invoke, "wait_for_condition (2 polls, state (n,'p')); create_callback; step between; result() (succeeds/fails); invoke (succeeds/fails)"),
}


def _mk_lemma(tname, psel):
    tmpl, desc = TEMPLATES[tname]
    heavy = tname in ("condition_callback_invoke", "wrapped_suspenders", "map_tolerated")
    max_ci = 3 if (h.THOROUGH or not heavy) else 2
    max_cc = 4 if (h.THOROUGH or not heavy) else 3

    def lem(a: int, b: int, c: int, flag: bool, ci: int, cc: int, after: bool, kk: bool):
        """
        pre: 0 <= ci <= 3 and 1 <= cc <= 4
        post: True
        """
        if ci > max_ci or cc > max_cc or (heavy and kk and not h.THOROUGH):
            return
        mk, setup = tmpl(a, b, c, flag)
        compare_runs(mk, ci, cc, after, psel, 2 if kk else 0, 0, setup)
        h.end()

    lem.__name__ = lem.__qualname__ = f"t_{tname}_page{psel}"
    return h.lemma(timeout=600, thorough_timeout=1800, funcs=FUNCS, reach=("end", "crashed"), tier="quick" if psel == 1 else "thorough",
                   bounds=_B.replace("0(none)..3", f"0(none)..{max_ci}").replace("1..4", f"1..{max_cc}") + f"history page size {PAGE[psel]}; template: {desc}")(lem)


for _t in TEMPLATES:
    for _p in range(3):
        _f = _mk_lemma(_t, _p)
        globals()[_f.__name__] = _f
del _f, _t, _p


def _mk_race_lemma(tname):
    """thorough tier: the same differential run with the IMMEDIATE-WAKE race switched on (a caller woken by Event.set runs before the setter's next statement)"""
    tmpl, desc = TEMPLATES[tname]

    def lem(a: int, b: int, c: int, flag: bool, ci: int, cc: int, after: bool, kk: bool):
        """
        pre: 0 <= ci <= 3 and 1 <= cc <= 4
        post: True
        """
        mk, setup = tmpl(a, b, c, flag)
        compare_runs(mk, ci, cc, after, 1, 2 if kk else 0, 0, setup, race=True)
        h.end()

    lem.__name__ = lem.__qualname__ = f"t_{tname}_immediate_wake"
    return h.lemma(timeout=1800, thorough_timeout=1800, funcs=FUNCS, reach=("end", "crashed"), tier="thorough",
                   bounds=_B + f"history page size {PAGE[1]}; woken callers run IMMEDIATELY inside Event.set; template: {desc}")(lem)


for _t in TEMPLATES:
    _f = _mk_race_lemma(_t)
    globals()[_f.__name__] = _f
del _f, _t


@h.lemma(timeout=300, funcs=FUNCS, reach=("end",),
         bounds=_B + "template: try: wait_for_condition whose check raises ValueError except ...; wait; return which handler ran")
def t_condition_check_fails(ci: int, cc: int, after: bool, psel: int):
    """
    pre: 0 <= ci <= 3 and 1 <= cc <= 4 and 0 <= psel < 3
    post: True
    """
    if h.known("KF-C02-wfc-first-failure-raises-original", True):
        h.end()   # the whole template is the finding's region: excluded while the finding is open (reported as KNOWN-FINDING)
        return

    def mk(obs):
        def handler(event, ctx):
            def check(state, c):
                raise ValueError("probe failed")
            r = observe(obs, "WFC", lambda: ctx.wait_for_condition(check, WaitForConditionConfig(lambda s, n: WaitForConditionDecision.stop_polling(), 0), name="WFC"))
            ctx.wait(Duration(5), name="W")
            return [r[0], r[1]]
        return handler
    compare_runs(mk, ci, cc, after, psel, 0, 0)
    h.end()
