"""C05 - "every update handed over before a synchronous checkpoint returns is delivered": the lemma about an update that is still
queued / in flight when the completion of its parent context is handed over by another thread (shared with C03; separate module
because C03's other lemmas live in the handler world)."""
from __future__ import annotations

from harness.C03 import ASSUMPTIONS  # noqa: F401
from harness import C03 as _C03  # noqa: E402

delivered_despite_parent_completion = _C03.w1_orphaned_in_flight
delivered_despite_parent_completion.__module__ = __name__
