"""C03 - write-ahead: no outcome is visible before the backend has accepted its record.

W1 (pipeline, world harness/batcher.py): a synchronous create_checkpoint returns normally only after the API call that
   carried its update returned AND the response records (all pages) were merged into state.operations - under every
   batch boundary, pagination of the response, one solver-chosen preemption, and a failing call.
W2 (per handler, SX over arbitrary records): when process() leaves by return / final error / suspension, the record that
   justifies it (terminal; wait/invoke/callback START; RETRY) was handed over synchronously in this run or pre-existed.
W3 (wrapper): oversized final result - see C16/C18 lemmas (execution-level SUCCEED is synchronous and precedes SUCCEEDED).
"""
from __future__ import annotations

from vk import h
from harness.batcher import ASSUMPTIONS_BATCHER, Client, Upd, World
from harness.common import ASSUMPTIONS_COMMON, OID, ST, TERMINAL
from harness import ops
from harness.steps import STEP_FUNCS, make_record, run_step
from aws_durable_execution_sdk_python.config import Duration
from aws_durable_execution_sdk_python.exceptions import ExecutionError
from aws_durable_execution_sdk_python.lambda_service import OperationAction as A
from aws_durable_execution_sdk_python.waits import WaitForConditionDecision

ASSUMPTIONS = ASSUMPTIONS_BATCHER + ASSUMPTIONS_COMMON
FUNCS = ["state.ExecutionState.create_checkpoint", "state.ExecutionState.checkpoint_batches_forever",
         "state.ExecutionState._collect_checkpoint_batch", "state.ExecutionState.fetch_paginated_operations",
         "threading.CompletionEvent.set/wait/is_set"]
SYNC_PATTERNS = [[True, True], [False, True], [True, False]]


def _mk_w1(pto, pto2=None):
    def lem(sp: int, paged: bool, max_bytes: int, pstep: int, fail_at: int, pstep2: int):
        """
        pre: 0 <= sp < 3 and 1 <= max_bytes <= 2 and 1 <= pstep <= 30 and 0 <= fail_at <= 2 and pstep < pstep2 <= 31
        post: True
        """
        if pto2 is None and pstep2 != pstep + 1:
            return   # single-preemption lemma: the second step number is unused
        syncs = SYNC_PATTERNS[sp]
        w = World(max_bytes, 2, 0.2, Client(fail_at=fail_at if fail_at > 0 else -1, page_split=paged),
                  pre_step=[pstep] if pto2 is None else [pstep, pstep2], pre_to=[pto] if pto2 is None else [pto, pto2])
        seen = {}

        def producer(i):
            def body():
                from aws_durable_execution_sdk_python.exceptions import BackgroundThreadError
                try:
                    yield from w.state._co_create_checkpoint(Upd(i, 1), syncs[i])
                except BackgroundThreadError:
                    seen[i] = ("err", None, None)
                    w.outcomes[f"p{i}"] = ("err",)
                    return
                # what user code would observe the instant the call returns
                seen[i] = ("ok", i in w.client.applied, w.state.operations.get(f"op{i}") is not None)
                w.outcomes[f"p{i}"] = ("ok",)

            return w.sched.spawn(f"p{i}", body())

        for i in range(2):
            producer(i)
        w.run()
        if w.sched.k == (1 if pto2 is None else 2):
            h.reach("preempted")
        for i in range(2):
            h.check(i in seen, "caller blocked forever")
            if syncs[i] and seen[i][0] == "ok":
                h.reach("sync_ok")
                h.check(seen[i][1], "a synchronous checkpoint returned before the backend accepted its update")
                h.check(seen[i][2], "a synchronous checkpoint returned before the response records were merged into the state")
            if syncs[i] and w.woke_clean(i):
                h.check(i in w.client.applied and w.state.operations.get(f"op{i}") is not None,
                        "waiter released (event set without error) before the update was applied and its response merged")
        h.end()

    lem.__name__ = lem.__qualname__ = f"w1_sync_after_apply_to{pto}" + ("" if pto2 is None else f"_then{pto2}")
    names = ['consumer', 'producer 0', 'producer 1']
    if pto2 is not None:
        return h.lemma(timeout=2400, thorough_timeout=2400, funcs=FUNCS, reach=("end", "preempted", "sync_ok"), tier="thorough",
                       bounds="as w1_sync_after_apply_to*, with TWO preemptions at yield points s1 < s2 <= 31 switching to "
                              f"{names[pto]} and then to {names[pto2]}")(lem)
    return h.lemma(timeout=300, thorough_timeout=900, funcs=FUNCS, reach=("end", "preempted", "sync_ok"),
                   bounds="2 updates of size 1 (max_bytes 1: two calls / 2: one call), 3 sync patterns, response inline or paginated (records on a second page), "
                          "API call #1 or #2 failing or none, window 0.2 s; ONE preemption at any of the first 30 yield points switching to thread "
                          f"{['consumer', 'producer 0', 'producer 1'][pto]}")(lem)


for _p in range(3):
    _f = _mk_w1(_p)
    globals()[_f.__name__] = _f
    for _q in range(3):
        _f = _mk_w1(_p, _q)
        globals()[_f.__name__] = _f
del _f, _p, _q


# ---- W1b: an update that is still queued when its parent context's completion is handed over ------------------
@h.lemma(timeout=300, thorough_timeout=900, funcs=FUNCS + ["state.ExecutionState._mark_orphans", "state.ExecutionState._has_completed_ancestor"],
         reach=("end", "sync_ok", "inflight", "rejected"),
         bounds="one synchronous step SUCCEED under context op9 (producer 0) and the CONTEXT SUCCEED of op9 (producer 1, sync or async), "
                "max_ops 1..2 (one or two API calls), response inline or paginated, ONE preemption at any of the first 30 yield points "
                "switching to any of the three threads: the step update may be queued, in flight or not yet handed over when its "
                "parent completes")
def w1_orphaned_in_flight(paged: bool, max_ops: int, pstep: int, pto: int, ctx_sync: bool):
    """
    pre: 1 <= max_ops <= 2 and 1 <= pstep <= 30 and 0 <= pto <= 2
    post: True
    """
    from aws_durable_execution_sdk_python.exceptions import BackgroundThreadError, OrphanedChildException
    from aws_durable_execution_sdk_python.lambda_service import OperationType
    w = World(10, max_ops, 0.2, Client(page_split=paged), pre_step=[pstep], pre_to=[pto])
    ups = [Upd(0, 1, parent_id="op9", otype=OperationType.STEP, action=A.SUCCEED),
           Upd(9, 1, parent_id=None, otype=OperationType.CONTEXT, action=A.SUCCEED)]
    syncs = [True, ctx_sync]
    seen = {}

    def producer(i):
        def body():
            try:
                yield from w.state._co_create_checkpoint(ups[i], syncs[i])
            except OrphanedChildException:
                seen[i] = ("rejected", None, None)   # the caller learns that nothing was recorded: no outcome becomes visible
                w.outcomes[f"p{i}"] = ("err",)
                return
            except BackgroundThreadError:
                seen[i] = ("err", None, None)
                w.outcomes[f"p{i}"] = ("err",)
                return
            seen[i] = ("ok", ups[i].i in w.client.applied, w.state.operations.get(ups[i].operation_id) is not None)
            w.outcomes[f"p{i}"] = ("ok",)

        return w.sched.spawn(f"p{i}", body())

    for i in range(2):
        producer(i)
    w.run()
    for i in range(2):
        h.check(i in seen, "caller blocked forever")
        if seen[i][0] == "rejected":
            h.check(i == 0, "the context's own completion was rejected as orphaned")
            h.reach("rejected")
        if syncs[i] and seen[i][0] == "ok":
            h.reach("sync_ok")
            if i == 0 and "op0" in w.state._parent_done:
                h.reach("inflight")
            h.check(seen[i][1], "a synchronous checkpoint returned before the backend accepted its update (update queued when its parent context completed)")
            h.check(seen[i][2], "a synchronous checkpoint returned before the response records were merged into the state")
    h.end()


# ---------------------------------------------------------------------------------------- W2: handlers
def _justified(tr, rec):
    """the last update for the id is synchronous and is the record that justifies how process() left"""
    ups = tr.state.updates_for()
    status = rec.status if rec else None
    if tr.kind == "ret":
        return (status in TERMINAL and not ups) or (len(ups) > 0 and ups[-1][0].action is A.SUCCEED and ups[-1][1])
    if tr.kind == "raise":
        if isinstance(tr.exc, ExecutionError):
            return True  # invocation-level error: terminates the invocation as FAILED, not an operation outcome
        return (status in TERMINAL and not ups) or (len(ups) > 0 and ups[-1][0].action is A.FAIL and ups[-1][1])
    # suspension: parked on something the backend knows about
    if ups:
        return ups[-1][0].action in (A.RETRY, A.START) and ups[-1][1]
    return status in (ST.PENDING, ST.STARTED)


@h.lemma(timeout=200, funcs=STEP_FUNCS, reach=("end", "ret", "raise", "suspend"),
         bounds="step: record absent or any of 5 statuses, any attempt, both semantics, function ok/raises, strategy arbitrary")
def w2_step(exists: bool, status_idx: int, attempt: int, has_details: bool, amo: bool, fails: bool, retry: bool, delay: int):
    """
    pre: 0 <= status_idx < 5 and 0 <= attempt and 0 <= delay
    post: True
    """
    rec = make_record(exists, status_idx, attempt, 0, True, 2, has_details)
    tr = run_step(rec, amo, fails, retry, delay)
    h.reach(tr.kind)
    h.check(_justified(tr, rec), "step outcome became visible before its record was accepted")
    h.end()


@h.lemma(timeout=200, funcs=ops.WFC_FUNCS, reach=("end", "ret", "raise", "suspend"),
         bounds="wait_for_condition: record absent or any of 5 statuses, any attempt, check ok/raises, strategy stop/continue")
def w2_wfc(exists: bool, status_idx: int, attempt: int, has_details: bool, check_fails: bool, stop: bool, delay: int):
    """
    pre: 0 <= status_idx < 5 and 0 <= attempt and 0 <= delay
    post: True
    """
    rec = make_record(exists, status_idx, attempt, 0, True, 2, has_details)

    def chk(s):
        if check_fails:
            raise ValueError("chk")
        return 1

    tr = ops.run_wfc(rec, 0, chk, lambda s, n: WaitForConditionDecision.stop_polling() if stop else WaitForConditionDecision.continue_waiting(Duration(delay)))
    h.reach(tr.kind)
    h.check(_justified(tr, rec), "condition outcome became visible before its record was accepted")
    h.end()


@h.lemma(timeout=200, funcs=ops.WAIT_FUNCS + ops.INVOKE_FUNCS + ops.CALLBACK_FUNCS, reach=("end", "suspend"),
         bounds="wait / invoke / callback.result: record absent or any status of the kind; PENDING only after the START was accepted synchronously or pre-existed")
def w2_wait_invoke_callback(kind: int, exists: bool, status_idx: int, seconds: int):
    """
    pre: 0 <= kind < 3 and 0 <= status_idx < 6 and seconds >= 1
    post: True
    """
    from harness.common import CALLBACK_STATUSES, INVOKE_STATUSES, WAIT_STATUSES
    if kind == 0:
        if status_idx >= len(WAIT_STATUSES):
            return
        rec = ops.wait_record(exists, status_idx)
        tr = ops.run_wait(rec, seconds)
    elif kind == 1:
        if status_idx >= len(INVOKE_STATUSES):
            return
        rec = ops.invoke_record(exists, status_idx, None, True)
        tr = ops.run_invoke(rec, 1, seconds)
    else:
        rec = ops.callback_record(exists, status_idx, "cb", None, True)
        tr0 = ops.run_callback_create(rec)
        h.check(tr0.kind == "ret")
        tr = ops.run_callback_result(tr0.state, "cb")
    if tr.kind == "suspend":
        h.reach("suspend")
        ups = tr.state.updates_for()
        h.check((exists and not ups) or (len(ups) == 1 and ups[0][0].action is A.START and ups[0][1]),
                "suspended although the wake-up (START) was not accepted synchronously")
        h.check(tr.state.ops[OID].status is ST.STARTED)
    h.end()


@h.lemma(timeout=200, funcs=ops.CHILD_FUNCS, reach=("end", "ret", "raise"),
         bounds="child context: record absent/STARTED/SUCCEEDED/FAILED, body returns or raises")
def w2_child(exists: bool, status_idx: int, body_fails: bool):
    """
    pre: 0 <= status_idx < 3
    post: True
    """
    rec = ops.context_record(exists, status_idx, "1", True, False)

    def body():
        if body_fails:
            raise ValueError("body")
        return 2

    tr = ops.run_child(rec, body)
    h.reach(tr.kind)
    h.check(_justified(tr, rec), "context outcome became visible before its record was accepted")
    h.end()
