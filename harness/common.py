"""Shared pieces for operation-handler lemmas: symbolic records, a fake ExecutionState with the real
lookup semantics, the backend transition contract, a stub clock, and per-handler runners.

Everything a lemma passes through here is REAL SDK code: the executors' check_result_status /
execute / process, CheckpointedResult, OperationUpdate factories, serialize/deserialize, suspend_*.
The fake state only replaces the queue + background thread (decided by C03/C05/C06) and the remote
backend (modelled by `Backend.apply`, the contract listed in ASSUMPTIONS_COMMON).
"""
from __future__ import annotations

import datetime as _dt

from vk import h

h.quiet_logging()

import aws_durable_execution_sdk_python.exceptions as EXC  # noqa: E402
import aws_durable_execution_sdk_python.suspend as SUSP  # noqa: E402
import aws_durable_execution_sdk_python.lambda_service as LS  # noqa: E402
from aws_durable_execution_sdk_python.exceptions import (  # noqa: E402
    CallableRuntimeError, SuspendExecution, TimedSuspendExecution,
)
from aws_durable_execution_sdk_python.identifier import OperationIdentifier  # noqa: E402
from aws_durable_execution_sdk_python.lambda_service import (  # noqa: E402
    CallbackDetails, ChainedInvokeDetails, ContextDetails, ErrorObject, Operation, OperationAction,
    OperationStatus, OperationSubType, OperationType, StepDetails, WaitDetails,
)
from aws_durable_execution_sdk_python.logger import Logger, LogInfo  # noqa: E402
from aws_durable_execution_sdk_python.state import CHECKPOINT_NOT_FOUND, CheckpointedResult  # noqa: E402

ASSUMPTIONS_COMMON = [
    "backend contract (harness/common.Backend.apply): START->STARTED (callback START returns a CallbackId); SUCCEED->SUCCEEDED(result=payload); "
    "FAIL->FAILED(error); RETRY->PENDING(attempt+1, next-attempt time = now+delay, result=payload); attempt counts completed attempts; "
    "the response of a checkpoint call contains the touched records",
    "FakeState replaces queue/background thread: a sync checkpoint applies all earlier async updates first (FIFO, decided separately by C05) and then itself; "
    "get_checkpoint_result uses the real CheckpointedResult.create_from_operation",
    "clock: time.time()/datetime.now() in exceptions.py and suspend.py return a fixed harness instant NOW=1_000_000.0 (2 stub functions)",
    "serdes.py runs with its `match` statements lowered to isinstance/== chains in memory (vk/lower.py; CrossHair cannot trace MATCH_CLASS); replays use the unmodified module",
    "logging disabled (logging.disable(CRITICAL)); formatting of symbolic numbers yields an arbitrary string (vk/chplugin.py)",
    "per-type reachable statuses: STEP {STARTED,PENDING,READY,SUCCEEDED,FAILED}; WAIT {STARTED,SUCCEEDED}; CALLBACK {STARTED,SUCCEEDED,FAILED,TIMED_OUT,CANCELLED,STOPPED}; "
    "CHAINED_INVOKE {STARTED,SUCCEEDED,FAILED,TIMED_OUT,STOPPED}; CONTEXT {STARTED,SUCCEEDED,FAILED}",
]

NOW = 1_000_000  # int: CrossHair keeps int arithmetic exact (symbolic floats do not converge); the real clock returns a float
NOW_DT = _dt.datetime.fromtimestamp(NOW, tz=_dt.UTC)
PAST_DT = _dt.datetime.fromtimestamp(NOW - 500, tz=_dt.UTC)
FUTURE_DT = _dt.datetime.fromtimestamp(NOW + 500, tz=_dt.UTC)


class _Clock:
    @staticmethod
    def time():
        return NOW


class _DTClass:
    @staticmethod
    def now(tz=None):
        return NOW_DT


class _DTModule:
    datetime = _DTClass
    UTC = _dt.UTC


def install_clock():
    EXC.time = _Clock
    SUSP.datetime = _DTModule


install_clock()

if h.MODE == "sx":
    # CrossHair cannot trace MATCH_CLASS: lower serdes.py's `match` statements in memory (see vk/lower.py)
    import aws_durable_execution_sdk_python.serdes as _SER
    from vk.lower import lower_in_place

    LOWERED = lower_in_place(_SER)
    import ast as _ast
    import inspect as _inspect
    _n_match = sum(isinstance(n, _ast.Match) for n in _ast.walk(_ast.parse(_inspect.getsource(_SER))))
    # vacuity guard of the lowering: every `match` statement of the module as it is TODAY was lowered (a module without `match` needs none)
    assert LOWERED["matches"] == _n_match and LOWERED["functions"] >= 8, (LOWERED, _n_match)

ST = OperationStatus
STEP_STATUSES = [ST.STARTED, ST.PENDING, ST.READY, ST.SUCCEEDED, ST.FAILED]
WAIT_STATUSES = [ST.STARTED, ST.SUCCEEDED]
CALLBACK_STATUSES = [ST.STARTED, ST.SUCCEEDED, ST.FAILED, ST.TIMED_OUT, ST.CANCELLED, ST.STOPPED]
INVOKE_STATUSES = [ST.STARTED, ST.SUCCEEDED, ST.FAILED, ST.TIMED_OUT, ST.STOPPED]
CONTEXT_STATUSES = [ST.STARTED, ST.SUCCEEDED, ST.FAILED]
TERMINAL = {ST.SUCCEEDED, ST.FAILED, ST.TIMED_OUT, ST.CANCELLED, ST.STOPPED}

OID = "op-1"
PID = "parent-0"
IDENT = OperationIdentifier(OID, PID, "nm")


class NullLogger:
    def debug(self, *a, **k):
        pass

    info = warning = error = exception = debug


class Backend:
    """The backend contract as a transition function on one record."""

    def __init__(self):
        self.callback_id = "cb-issued"
        self.invoke_start_status = ST.STARTED  # an invoke START may already be terminal in the response

    def apply(self, old: Operation | None, u: LS.OperationUpdate) -> Operation:
        att = 0
        res = None
        err = None
        if old is not None and old.step_details is not None:
            att = old.step_details.attempt
            res = old.step_details.result
        common = dict(operation_id=u.operation_id, operation_type=u.operation_type, parent_id=u.parent_id,
                      name=u.name, sub_type=u.sub_type)
        a = u.action
        t = u.operation_type
        if a is OperationAction.START:
            status = ST.STARTED
        elif a is OperationAction.SUCCEED:
            status = ST.SUCCEEDED
        elif a is OperationAction.FAIL:
            status = ST.FAILED
        elif a is OperationAction.RETRY:
            status = ST.PENDING
        else:
            raise AssertionError("unsupported action")
        if t is OperationType.STEP:
            nts = None
            if a is OperationAction.RETRY:
                att = att + 1
                nts = FUTURE_DT
                res = u.payload
                err = u.error
            elif a is OperationAction.SUCCEED:
                res = u.payload
            elif a is OperationAction.FAIL:
                err = u.error
            return Operation(status=status, step_details=StepDetails(attempt=att, next_attempt_timestamp=nts, result=res, error=err), **common)
        if t is OperationType.WAIT:
            return Operation(status=status, wait_details=WaitDetails(FUTURE_DT), **common)
        if t is OperationType.CALLBACK:
            return Operation(status=status, callback_details=CallbackDetails(callback_id=self.callback_id), **common)
        if t is OperationType.CHAINED_INVOKE:
            return Operation(status=self.invoke_start_status if a is OperationAction.START else status,
                             chained_invoke_details=ChainedInvokeDetails(), **common)
        if t is OperationType.CONTEXT:
            rc = bool(u.context_options and u.context_options.replay_children)
            return Operation(status=status, context_details=ContextDetails(replay_children=rc, result=u.payload, error=u.error), **common)
        if t is OperationType.EXECUTION:
            return Operation(status=status, **common)
        raise AssertionError("unsupported type")


class FakeState:
    """ExecutionState stand-in: real lookup semantics, logged checkpoints, backend contract applied."""

    durable_execution_arn = "arn:aws:lambda:test"

    def __init__(self, op: Operation | None = None, backend: Backend | None = None):
        self.ops: dict[str, Operation] = {}
        if op is not None:
            self.ops[op.operation_id] = op
        self.backend = backend or Backend()
        self.log: list = []       # (update, is_sync)
        self.events: list = []    # ordered: ("update", action, is_sync) / ("ufn",) / ...
        self.pending_async: list = []
        self.fail_at: int | None = None   # index of the sync call that raises (checkpoint failure)
        self.n_sync = 0
        self.fail_refresh = False   # the next EMPTY (state refresh) checkpoint fails; afterwards the pipeline is dead: every call raises
        self.dead = None
        self.exempt_first_starts = False   # see create_checkpoint
        self._started_ctx = set()

    # -- real semantics of ExecutionState.get_checkpoint_result
    def get_checkpoint_result(self, checkpoint_id):
        op = self.ops.get(checkpoint_id)
        if op:
            return CheckpointedResult.create_from_operation(op)
        return CHECKPOINT_NOT_FOUND

    def _apply(self, u):
        if u is None:
            return
        self.ops[u.operation_id] = self.backend.apply(self.ops.get(u.operation_id), u)

    def create_checkpoint(self, operation_update=None, is_sync=True):
        if operation_update is not None and operation_update.operation_type is OperationType.CONTEXT and operation_update.action is OperationAction.START:
            first = operation_update.operation_id not in self._started_ctx
            self._started_ctx.add(operation_update.operation_id)
        else:
            first = False
        if self.dead is not None and not (self.exempt_first_starts and first):
            # (exempt_first_starts: in the pool model a branch body runs atomically when the task FINISHES, but its context START was really
            # issued when the task started - for initially submitted branches with a free worker that is before any later failure)
            raise self.dead
        if operation_update is None and self.fail_refresh:
            from aws_durable_execution_sdk_python.exceptions import BackgroundThreadError
            self.dead = BackgroundThreadError("Checkpoint creation failed", RuntimeError("api down"))
            self.log.append((operation_update, is_sync))
            raise self.dead
        self.log.append((operation_update, is_sync))
        self.events.append(("update", operation_update.action if operation_update else None, is_sync,
                            operation_update.operation_id if operation_update else None))
        if not is_sync:
            self.pending_async.append(operation_update)
            return
        for u in self.pending_async:
            self._apply(u)
        self.pending_async = []
        self._apply(operation_update)

    def is_replaying(self):
        return False

    def track_replay(self, operation_id):
        pass

    # helpers for oracles
    def updates_for(self, oid=OID):
        return [(u, s) for (u, s) in self.log if u is not None and u.operation_id == oid]

    def actions(self, oid=OID):
        return [u.action for (u, s) in self.updates_for(oid)]


def mk_logger(state):
    return Logger.from_log_info(NullLogger(), LogInfo(state))


class Trace:
    __slots__ = ("kind", "value", "exc", "ts", "state", "calls", "strategy_calls")

    def __init__(self):
        self.kind = None        # "ret" | "suspend" | "raise"
        self.value = None
        self.exc = None
        self.ts = None          # scheduled timestamp for timed suspends
        self.state = None
        self.calls = []
        self.strategy_calls = []


def run(fn, state, tr: Trace | None = None) -> Trace:
    """Run fn() and classify how it left."""
    tr = tr or Trace()
    tr.state = state
    try:
        tr.value = fn()
        tr.kind = "ret"
    except TimedSuspendExecution as e:
        tr.kind = "suspend"
        tr.ts = e.scheduled_timestamp
        tr.exc = e
    except SuspendExecution as e:
        tr.kind = "suspend"
        tr.exc = e
    except Exception as e:  # noqa: BLE001  (CrossHair control-flow exceptions are BaseException: not caught)
        tr.kind = "raise"
        tr.exc = e
    return tr


# ---- symbolic record builders ---------------------------------------------------------------
PAYLOADS = ['"r"', "5", "[1,2]", '{"t":"t","v":[{"t":"i","v":1}]}']
PAYLOAD_VALUES = ["r", 5, [1, 2], (1,)]


def err_obj(has_err: bool, msg: str, typ: str = "ValueError"):
    return ErrorObject(msg, typ, None, None) if has_err else None


def ts_choice(i: int):
    return [None, PAST_DT, FUTURE_DT][i]


def step_record(status: OperationStatus, attempt: int, payload: str | None, error: ErrorObject | None,
                ts=None, has_details: bool = True, sub_type=OperationSubType.STEP) -> Operation:
    return Operation(OID, OperationType.STEP, status, parent_id=PID, name="nm", sub_type=sub_type,
                     step_details=StepDetails(attempt=attempt, next_attempt_timestamp=ts, result=payload, error=error) if has_details else None)
