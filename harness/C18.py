"""C18 - every invocation ends with exactly one well-formed, correctly classified outcome.

Composed world (harness/inv.py): real durable_execution wrapper, context, executors, state, coroutine checkpoint thread,
real LambdaClient over a dict-speaking backend model.
  outcome_user_behaviour : the handler returns a JSON value / a non-serializable value / an oversized value, or raises one of 11
       exception classes, directly or inside a child context or a step.
  outcome_api_failure    : the checkpoint API fails at a solver-chosen call with a boto-style error whose HTTP status, code and
       message are solver-chosen (classification per CheckpointError.from_exception's documented rule).
  outcome_bad_event      : malformed invocation payloads.
  from_exception_rule    : CheckpointError.from_exception vs. the rule stated in its comment, all symbolic.
Oracle: exactly one of {SUCCEEDED+Result, FAILED+Error, PENDING with neither} is returned, or the wrapper raises - and it raises only
for retriable checkpoint errors, invocation errors and malformed payloads; the checkpoint thread is stopped before the wrapper leaves.
"""
from __future__ import annotations

from vk import h
from harness import common  # noqa: F401
from harness.inv import ASSUMPTIONS_INV, Backend, Runtime, run_execution
from vk import sched
import aws_durable_execution_sdk_python.execution as X
import aws_durable_execution_sdk_python.serdes as SER
from aws_durable_execution_sdk_python.config import Duration, StepConfig
from aws_durable_execution_sdk_python.exceptions import (
    CallableRuntimeError, CallbackError, CheckpointError, CheckpointErrorCategory, ExecutionError, InvocationError,
    StepInterruptedError, SuspendExecution, TimedSuspendExecution, ValidationError,
)
from aws_durable_execution_sdk_python.execution import durable_execution
from aws_durable_execution_sdk_python.retries import RetryDecision

if h.MODE == "sx":
    from vk.jsonmodel import JsonModel

    SER.json = JsonModel
    X.json = JsonModel

    def _size(v):
        if isinstance(v, list) and len(v) == 2 and v[0] == "BIG":
            return X.LAMBDA_RESPONSE_SIZE_LIMIT + v[1]
        if isinstance(v, dict) and "Error" in v and v["Error"].get("ErrorMessage") == "BIGERR":
            return X.LAMBDA_RESPONSE_SIZE_LIMIT + 1
        return 10

    JsonModel.size_of = staticmethod(_size)

ASSUMPTIONS = ASSUMPTIONS_INV + [
    "json inside serdes.py and execution.py is the opaque model vk/jsonmodel.py; the size of the final result text is LAMBDA_RESPONSE_SIZE_LIMIT + d for a "
    "solver-chosen d when the handler returns the oversized marker value, else 10 (replays use the real json with a really oversized string)",
    "boto errors are exceptions with a `.response` mapping {Error:{Code,Message}, ResponseMetadata:{HTTPStatusCode}} (botocore ClientError contract)",
    "classification rule (from CheckpointError.from_exception's comment): 4xx other than 429, with an Error block that is not "
    "(InvalidParameterValueException + message starting 'Invalid Checkpoint Token') => EXECUTION category => is_retriable() => the wrapper raises; "
    "everything else => INVOCATION category => the wrapper returns FAILED",
]
FUNCS = ["execution.durable_execution.wrapper", "execution.handle_checkpoint_error", "exceptions.CheckpointError.from_exception/is_retriable",
         "lambda_service.LambdaClient.checkpoint", "state.ExecutionState.create_checkpoint/create_checkpoint_sync/checkpoint_batches_forever/close",
         "execution.DurableExecutionInvocationOutput.to_dict", "lambda_service.ErrorObject.from_exception"]

NO_RETRY = StepConfig(retry_strategy=lambda e, n: RetryDecision.no_retry())


class BotoErr(Exception):
    def __init__(self, status, code, message, with_error=True):
        super().__init__("boto client error")
        self.response = {"ResponseMetadata": {"HTTPStatusCode": status}}
        if with_error:
            self.response["Error"] = {"Code": code, "Message": message}


def well_formed(out):
    h.check(isinstance(out, dict) and out.get("Status") in ("SUCCEEDED", "FAILED", "PENDING"), "output is not a status dict")
    st = out["Status"]
    if st == "SUCCEEDED":
        h.check("Result" in out and "Error" not in out, "SUCCEEDED must carry a Result and no Error")
    elif st == "FAILED":
        h.check("Result" not in out, "FAILED must not carry a Result")
    else:
        h.check("Result" not in out and "Error" not in out, "PENDING must carry neither Result nor Error")
    h.check(set(out) <= {"Status", "Result", "Error"}, "unexpected keys in the output")


def one_invocation(handler, backend, ksteps=(), race=False):
    """returns ("out", dict) | ("raise", exc); checks the checkpoint thread was stopped"""
    from harness import inv

    ev = backend.invocation_event()
    rt = inv.Runtime.current = inv.Runtime(ksteps, race)
    try:
        out = durable_execution(handler)(ev, None)
        kind = ("out", out)
    except inv.InvalidHistory as ih:
        raise AssertionError("invalid history: " + str(ih)) from None
    except (sched.Deadlock, sched.StepLimit) as d:
        raise AssertionError("the invocation never ends: " + str(d)) from None
    except Exception as e:  # noqa: BLE001
        kind = ("raise", e)
    if rt.state is not None:
        h.check(rt.state._checkpointing_stopped.is_set(), "checkpoint thread not told to stop before the wrapper left")
        h.check(rt.consumer_done, "checkpoint thread still alive after the wrapper left")
    return kind


EXC = ["ValueError", "KeyError", "ExecutionError", "CallbackError", "InvocationError", "StepInterruptedError", "SuspendExecution",
       "TimedSuspendExecution", "CallableRuntimeError", "CheckpointError-retriable", "CheckpointError-fatal", "ValidationError"]


def make_exc(i):
    return [ValueError("v"), KeyError("k"), ExecutionError("e"), CallbackError("c", "cbid"), InvocationError("i"), StepInterruptedError("s"),
            SuspendExecution("p"), TimedSuspendExecution("t", 5.0), CallableRuntimeError("m", "T", None, None),
            CheckpointError("ce", CheckpointErrorCategory.EXECUTION), CheckpointError("ci", CheckpointErrorCategory.INVOCATION),
            ValidationError("val")][i]


# expected classification of an exception leaving the user handler
EXPECT = {"ValueError": "FAILED", "KeyError": "FAILED", "ExecutionError": "FAILED", "CallbackError": "FAILED", "InvocationError": "RAISE",
          "StepInterruptedError": "RAISE", "SuspendExecution": "PENDING", "TimedSuspendExecution": "PENDING", "CallableRuntimeError": "FAILED",
          "CheckpointError-retriable": "RAISE", "CheckpointError-fatal": "FAILED", "ValidationError": "FAILED"}

BIGSTR = "B" * (6 * 1024 * 1024)


@h.lemma(timeout=400, thorough_timeout=1200, funcs=FUNCS, reach=("end", "returned", "raised_in_child", "oversize"),
         bounds="handler: returns int / non-serializable / oversized (limit + d, any d>=1) / exactly-at-limit value, or raises one of 12 exception classes at top level, "
                "after a completed step, or inside a child context; one invocation")
def outcome_user_behaviour(mode: int, exc_idx: int, where: int, v: int, d: int):
    """
    pre: 0 <= mode < 5 and 0 <= exc_idx < 12 and 0 <= where < 3 and d >= 0
    post: True
    """
    def handler(event, ctx):
        if mode == 0:
            return {"v": v}
        if mode == 1:
            return object()
        if mode == 2:
            return ["BIG", d] if h.MODE == "sx" else [BIGSTR, d]
        if mode == 3:
            ctx.step(lambda s: v, name="S")
            return v
        # mode 4: raise
        if where == 1:
            ctx.step(lambda s: 1, name="S")
        if where == 2:
            def child(c2):
                raise make_exc(exc_idx)
            return ctx.run_in_child_context(child, name="CH")
        raise make_exc(exc_idx)

    be = Backend()
    kind, val = one_invocation(handler, be)
    if kind == "out":
        well_formed(val)
    if mode in (0, 3):
        h.reach("returned")
        h.check(kind == "out" and val["Status"] == "SUCCEEDED", "a JSON value must give SUCCEEDED")
        h.check(X.json.loads(val["Result"]) == ({"v": v} if mode == 0 else v), "Result must be the JSON text of the returned value")
    elif mode == 1:
        h.check(kind == "out" and val["Status"] == "FAILED" and "Error" in val, "a non-serializable result must give FAILED with an error object")
    elif mode == 2:
        if d >= 1 or h.MODE != "sx":
            h.reach("oversize")
            h.check(kind == "out" and val["Status"] == "SUCCEEDED" and val["Result"] == "", "oversized result: SUCCEEDED with an empty payload")
            h.check(be.exec_result is not None and be.exec_result.payload is not None, "oversized result must be recorded as the execution's result first")
            h.check(be.stream[-1][1] is be.exec_result, "the execution-level record must be the last update")
        else:
            h.check(kind == "out" and val["Status"] == "SUCCEEDED" and val["Result"] != "" and be.exec_result is None,
                    "a result exactly at the limit is returned inline")
    else:
        name = EXC[exc_idx]
        want = EXPECT[name]
        if where == 2:
            h.reach("raised_in_child")
            # inside a child context ordinary exceptions are recorded and re-raised as CallableRuntimeError; invocation errors propagate
            if want == "FAILED":
                want = "FAILED"
        if want == "RAISE":
            h.check(kind == "raise", f"{name} must make the wrapper raise (Lambda retry)")
            h.check(isinstance(val, (InvocationError,)), "the raised error must be the invocation-level error")
        elif want == "PENDING":
            h.check(kind == "out" and val["Status"] == "PENDING", "suspension must give PENDING")
        else:
            h.check(kind == "out" and val["Status"] == "FAILED", f"{name} must give FAILED, not a raise or another status")
            h.check("Error" in val and isinstance(val["Error"], dict), "FAILED must carry an error object")
    h.end()


# ---------------------------------------------------------------- exception SHAPES: what the exception was constructed with
class _Custom(Exception):
    pass


class _StrRaises(Exception):
    def __str__(self):
        return "rendered"


SHAPES = ["one ASCII string", "no arguments", "one int", "one tuple", "two arguments (str, int)", "a string with a lone surrogate (os.fsdecode of an undecodable name)",
          "one non-ASCII string", "one None", "one bytes"]


def _conc(i, n):
    """the concrete value of a symbolic index (forks once per value instead of building a symbolic selection)"""
    for k in range(n):
        if i == k:
            return k
    return n - 1


def make_shaped(cls_i, shape):
    cls_i, shape = _conc(cls_i, 4), _conc(shape, 9)
    cls = [ValueError, KeyError, _Custom, _StrRaises][cls_i]
    args = [("plain",), (), (42,), (("a", 1),), ("m", 7), ("caf" + chr(0xDCE9) + ".txt",), ("caf" + chr(0xE9) + chr(0x1D11E),), (None,), (b"raw",)][shape]
    return cls(*args)


def error_object_well_formed(e):
    h.check(isinstance(e, dict) and set(e) <= {"ErrorMessage", "ErrorType", "ErrorData", "StackTrace"}, "error object has unexpected keys")
    for k in ("ErrorMessage", "ErrorType", "ErrorData"):
        h.check(e.get(k) is None or isinstance(e[k], str), f"Error.{k} of the outcome is not a string")
    st = e.get("StackTrace")
    h.check(st is None or (isinstance(st, list) and all(isinstance(x, str) for x in st)), "Error.StackTrace of the outcome is not a list of strings")


@h.lemma(timeout=400, thorough_timeout=1200, funcs=FUNCS + ["state.ExecutionState._calculate_operation_size (the real one)", "operation.step / operation.child error paths"],
         reach=("end", "in_step", "in_child", "surrogate"),
         bounds="user code raises ValueError / KeyError / a custom exception / a custom exception with its own __str__, constructed with one of 9 argument shapes "
                "(ASCII str, none, int, tuple, (str,int), lone-surrogate str, non-ASCII str, None, bytes), at top level / inside a step / inside a child context / inside a "
                "step inside a child context; the REAL size accounting runs on the resulting FAIL updates; one invocation")
def outcome_exception_shapes(cls_i: int, shape: int, where: int):
    """
    pre: 0 <= cls_i < 4 and 0 <= shape < 9 and 0 <= where < 4
    post: True
    """
    import json as real_json
    from aws_durable_execution_sdk_python.state import ExecutionState
    cls_i, shape, where = _conc(cls_i, 4), _conc(shape, 9), _conc(where, 4)

    def boom(*_a):
        raise make_shaped(cls_i, shape)

    def handler(event, ctx):
        if where == 0:
            boom()
        if where == 1:
            return ctx.step(boom, name="S", config=NO_RETRY)
        if where == 2:
            return ctx.run_in_child_context(boom, name="CH")
        return ctx.run_in_child_context(lambda c2: c2.step(boom, name="S", config=NO_RETRY), name="CH")

    stub = ExecutionState.__dict__["_calculate_operation_size"]
    ExecutionState._calculate_operation_size = ExecutionState.__dict__["_orig_calculate_operation_size"]
    try:
        be = Backend()
        kind, val = one_invocation(handler, be)
    finally:
        ExecutionState._calculate_operation_size = stub
    if where == 1:
        h.reach("in_step")
    if where >= 2:
        h.reach("in_child")
    if shape == 5:
        h.reach("surrogate")
    h.check(kind == "out", "an ordinary user exception made the wrapper raise: " + (type(val).__name__ if kind == "raise" else ""))
    well_formed(val)
    h.check(val["Status"] == "FAILED" and "Error" in val, "an ordinary user exception must give FAILED with an error object")
    error_object_well_formed(val["Error"])
    try:
        real_json.dumps(val)
    except (TypeError, ValueError):
        h.check(False, "the outcome cannot be rendered as JSON by the Lambda runtime")
    if where >= 1:
        fails = [u for (_i, u) in be.stream if u.action.value == "FAIL"]
        h.check(len(fails) == (1 if where < 3 else 2), "the failure must be recorded once per failing operation")
    h.end()


def expected_category(status, code_sel, msg_sel, with_error):
    code = ["InvalidParameterValueException", "ThrottlingException", None][code_sel]
    msg = ["Invalid Checkpoint Token: expired", "something else", None][msg_sel]
    if status is not None and 400 <= status < 500 and status != 429 and with_error:
        if not (code == "InvalidParameterValueException" and (msg or "").startswith("Invalid Checkpoint Token")):
            return "EXECUTION", code, msg
    return "INVOCATION", code, msg


def _mk_api_failure(call):
    def lem(shape: int, status4: int, status5: int, k: int, race: bool):
        """
        pre: 0 <= shape < 4 and 0 <= k <= 6
        pre: 400 <= status4 <= 499 and status4 != 429 and 500 <= status5 <= 599
        post: True
        """
        be = Backend()
        be.fail_call = (1, call)
        if shape == 0:
            be.fail_exc, cat = BotoErr(status4, "ThrottlingException", "slow down"), "EXECUTION"
        elif shape == 1:
            be.fail_exc, cat = BotoErr(status5, "ServiceException", "boom"), "INVOCATION"
        elif shape == 2:
            be.fail_exc, cat = BotoErr(status4, "InvalidParameterValueException", "Invalid Checkpoint Token: x"), "INVOCATION"
        else:
            be.fail_exc, cat = RuntimeError("socket closed"), "INVOCATION"
        seen = []

        def handler(event, ctx):
            a = ctx.step(lambda s: 1, name="A")
            seen.append("A")
            b = ctx.step(lambda s: 2, name="B")
            seen.append("B")
            return a + b

        kind, val = one_invocation(handler, be, ksteps=[k], race=race)
        if be.calls < call:
            h.check(kind == "out" and val["Status"] == "SUCCEEDED")   # fewer calls than the failing index: nothing failed
            h.end()
            return
        h.check(be.calls == call, "an API call was made after the failing one")
        h.check(not (kind == "out" and val["Status"] in ("SUCCEEDED", "PENDING")), "a failed checkpoint must never end in SUCCEEDED or PENDING")
        if cat == "EXECUTION":
            h.reach("raised")
            h.check(kind == "raise" and isinstance(val, CheckpointError), "a retriable checkpoint error must be raised for Lambda retry")
        else:
            h.reach("failed")
            h.check(kind == "out", "a non-retriable checkpoint error must be returned as FAILED, not raised")
            well_formed(val)
            h.check(val["Status"] == "FAILED" and "Error" in val)
        h.end()

    lem.__name__ = lem.__qualname__ = f"outcome_api_failure_call{call}"
    return h.lemma(timeout=400, thorough_timeout=1200, funcs=FUNCS, reach=("end", "raised", "failed"),
                   bounds=f"program step A; step B; return: checkpoint API call #{call} fails with (a) 4xx boto error (any status but 429), (b) 5xx, (c) invalid "
                          "checkpoint token, (d) non-boto exception; the checkpoint thread runs 0..6 steps ahead right after the first hand-over; a woken "
                          "waiter runs immediately or later")(lem)


for _c in (1, 2, 3):
    _f = _mk_api_failure(_c)
    globals()[_f.__name__] = _f
del _f, _c


@h.lemma(timeout=200, funcs=FUNCS, bounds="malformed events: missing DurableExecutionArn / CheckpointToken, non-dict, operations not a list of mappings")
def outcome_bad_event(which: int):
    """
    pre: 0 <= which < 5
    post: True
    """
    ev = [{}, {"DurableExecutionArn": "a"}, None, {"DurableExecutionArn": "a", "CheckpointToken": "t", "InitialExecutionState": {"Operations": [5]}},
          {"DurableExecutionArn": "a", "CheckpointToken": "t", "InitialExecutionState": {"Operations": [{"Id": "x"}]}}][which]
    try:
        durable_execution(lambda e, c: 1)(ev, None)
        h.check(False, "a malformed invocation payload must be rejected")
    except ExecutionError:
        pass
    except ValueError:
        pass  # enum conversion of a missing Type/Status
    h.end()


@h.lemma(timeout=300, funcs=["exceptions.CheckpointError.from_exception", "exceptions.BotoClientError.from_exception", "exceptions.CheckpointError.is_retriable"],
         reach=("end", "execution", "invocation"),
         bounds="HTTP status any int or absent, Error block present/absent, code/message from 3 choices each incl. None, message prefix match symbolic")
def from_exception_rule(status: int, has_status: bool, code_sel: int, msg_sel: int, with_error: bool, has_meta: bool):
    """
    pre: 0 <= code_sel < 3 and 0 <= msg_sel < 3
    post: True
    """
    cat, code, msg = expected_category(status if (has_status and has_meta) else None, code_sel, msg_sel, with_error)
    e = BotoErr(status, code, msg, with_error)
    if not has_status:
        e.response["ResponseMetadata"] = {}
    if not has_meta:
        del e.response["ResponseMetadata"]
    ce = CheckpointError.from_exception(e)
    if status == 0 and has_status and has_meta:
        cat = "INVOCATION"
    h.check(ce.error_category.value == cat, "classification differs from the documented rule")
    h.check(ce.is_retriable() == (cat == "EXECUTION"))
    h.reach("execution" if cat == "EXECUTION" else "invocation")
    h.end()
