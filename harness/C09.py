"""C09 - map/parallel honour the completion policy and report branches faithfully.

  policy_consistency (SX): real ExecutionCounters.should_complete / should_continue / is_complete and BatchResult._get_completion_reason /
       from_items over every (total <= 5, successes, failures) and a symbolic policy (min_successful, tolerated_failure_count, integer
       tolerated_failure_percentage, each possibly None): the executor stops exactly when the policy is decided, and the reason reported for the
       items at that moment is consistent with the item statuses and the policy.
  percentage_kernel (z3 QF_BVFP, from the AST): the percentage tests of models.py in IEEE double arithmetic agree with the exact rational
       comparison 100*f > pct*t for all 0 <= f <= t <= 128 and integer pct in 0..100.
  executor lemmas (world harness/exec_world.py): decision timing, concurrency limit, item order/content, zero items, replay.
"""
from __future__ import annotations

from vk import h

h.quiet_logging()

from aws_durable_execution_sdk_python.concurrency.models import (  # noqa: E402
    BatchItem, BatchItemStatus, BatchResult, CompletionReason, ExecutionCounters,
)
from aws_durable_execution_sdk_python.config import CompletionConfig  # noqa: E402

ASSUMPTIONS = [
    "percentages are integers (a float percentage such as 33.3 has no exact decimal meaning in binary floating point; outside the claim)",
    "policy semantics as implemented and documented in ExecutionCounters: no tolerance configured => fail-fast on the first failure; min_successful None => all items",
    "z3 query: ints are 64-bit bit-vectors converted with round-to-nearest-even, doubles are IEEE binary64",
]
FUNCS = ["concurrency.models.ExecutionCounters.should_complete/should_continue/is_complete/_is_failure_condition_reached/is_failure_tolerance_exceeded",
         "concurrency.models.BatchResult._get_completion_reason/from_items"]

MAXT = 6 if h.THOROUGH else 5


def exceeded(fail, total, tol_cnt, tol_pct):
    if tol_cnt is not None and fail > tol_cnt:
        return True
    if tol_pct is not None and total > 0 and 100 * fail > tol_pct * total:
        return True
    return False


@h.lemma(timeout=400, thorough_timeout=1800, funcs=FUNCS, reach=("end", "decided", "undecided", "minreached", "exceeded"),
         bounds="total 1..5 items (6 thorough), successes + failures <= total, min_successful None or 1..total, tolerated_failure_count None or any int >= 0, "
                "tolerated_failure_percentage None or any int 0..100")
def policy_consistency(total: int, succ: int, fail: int, has_min: bool, min_succ: int, has_cnt: bool, tol_cnt: int, has_pct: bool, tol_pct: int):
    """
    pre: 1 <= total <= MAXT and 0 <= succ and 0 <= fail and succ + fail <= total
    pre: 1 <= min_succ <= total and 0 <= tol_cnt and 0 <= tol_pct <= 100
    post: True
    """
    # make the counts concrete (they are small): the float expression in the code then only meets a symbolic threshold
    t = [1, 2, 3, 4, 5, 6][total - 1]
    s = list(range(7))[succ]
    f = list(range(7))[fail]
    ms = min_succ if has_min else None
    tc = tol_cnt if has_cnt else None
    tp = tol_pct if has_pct else None
    cfg = CompletionConfig(ms, tc, tp)
    c = ExecutionCounters(t, cfg.min_successful or t, tc, tp)
    c.success_count, c.failure_count = s, f
    decided = c.should_complete()
    all_done = s + f == t
    min_reached = s >= (ms if ms is not None else t)
    fail_fast = tc is None and tp is None
    tol_exceeded = exceeded(f, t, tc, tp) or (fail_fast and f > 0)
    h.check(decided == (all_done or min_reached or tol_exceeded),
            "the executor must stop exactly when the policy is decided (all finished / minimum successes reached / failure tolerance exceeded)")
    if not decided:
        h.reach("undecided")
        h.end()
        return
    h.reach("decided")
    items = ([BatchItem(i, BatchItemStatus.SUCCEEDED, i) for i in range(s)] + [BatchItem(s + i, BatchItemStatus.FAILED) for i in range(f)]
             + [BatchItem(s + f + i, BatchItemStatus.STARTED) for i in range(t - s - f)])
    br = BatchResult.from_items(items, cfg)
    r = br.completion_reason
    if r is CompletionReason.ALL_COMPLETED:
        h.check(all_done, "ALL_COMPLETED reported although a branch is still unfinished")
    elif r is CompletionReason.MIN_SUCCESSFUL_REACHED:
        h.reach("minreached")
        h.check(ms is not None and s >= ms, "MIN_SUCCESSFUL_REACHED reported without the minimum")
    else:
        h.reach("exceeded")
        h.check(tol_exceeded, "FAILURE_TOLERANCE_EXCEEDED reported although the tolerance holds")
    h.check(c.is_failure_tolerance_exceeded() == exceeded(f, t, tc, tp))
    h.check(br.total_count == t and br.success_count == s and br.failure_count == f and br.started_count == t - s - f)
    h.end()


def _pct_sites():
    """(function, description) of every function in models.py that mentions the tolerated failure percentage (where the test sits is the implementation's
    business: helpers included)"""
    import inspect
    import aws_durable_execution_sdk_python.concurrency.models as MM
    out = []

    def src(fn):
        try:
            return inspect.getsource(fn)
        except (OSError, TypeError):   # generated functions (dataclass __init__/__eq__ ...) have no source
            return ""
    for cls in (ExecutionCounters, BatchResult):
        for name, raw in vars(cls).items():
            fn = getattr(raw, "__func__", raw)
            if inspect.isfunction(fn) and "percentage" in src(fn):
                out.append((fn, f"{cls.__name__}.{name}"))
    for name, fn in vars(MM).items():
        if inspect.isfunction(fn) and fn.__module__ == MM.__name__ and "percentage" in src(fn):
            out.append((fn, name))
    return out


@h.lemma(timeout=600, thorough_timeout=1800, funcs=FUNCS, kind="qz",
         bounds="0 <= failures <= total <= 128, total >= 1, integer percentage 0..100; IEEE double semantics bit-exact (z3 QF_BVFP); 3 code sites, "
                "expressions extracted from the AST of models.py")
def percentage_kernel():
    import ast
    import os
    import z3
    from vk import py2smt as P

    F, T, PCT = z3.BitVecs("F T PCT", 64)
    queries = 0
    sites_found = 0
    tmo = float(os.environ.get("VK_QZ_TIMEOUT", "600")) * 1000 / 4
    for fn, desc in _pct_sites():
        tree = P.fn_ast(fn)
        # find:  <name> = (<f> / <t>) * 100   and the comparison  <name> > <pct>
        assign = None
        for node in ast.walk(tree):
            if isinstance(node, ast.Assign) and isinstance(node.value, ast.BinOp) and any(isinstance(x, ast.Div) for x in [n.op for n in ast.walk(node.value) if isinstance(n, ast.BinOp)]):
                assign = node
        cmp_node = None
        if assign is not None:
            tgt = assign.targets[0].id
            for node in ast.walk(tree):
                if isinstance(node, ast.Compare) and isinstance(node.left, ast.Name) and node.left.id == tgt:
                    cmp_node = node
        else:
            # no float percentage variable: expect a direct integer comparison  f * 100 > pct * t
            for node in ast.walk(tree):
                if isinstance(node, ast.Compare) and any(isinstance(n, ast.Mult) for n in [b.op for b in ast.walk(node) if isinstance(b, ast.BinOp)]):
                    cmp_node = node
        if cmp_node is None:
            continue   # mentions the percentage without testing it (e.g. only `is not None`)
        sites_found += 1

        def intr(tr, node):
            # attribute / name leaves: failure count, total, percentage (by name)
            name = node.attr if isinstance(node, ast.Attribute) else (node.id if isinstance(node, ast.Name) else None)
            if name in ("failure_count",):
                return ("bvint", F)
            if name in ("total_tasks", "total_count"):
                return ("bvint", T)
            if name in ("tolerated_failure_percentage", "tolerated_percentage"):
                return ("bvint", PCT)
            return None

        tr = P.Tr({}, intr, "fp")
        if assign is not None:
            tr.env[assign.targets[0].id] = tr.expr(assign.value)
        got = tr.truth(tr.expr(cmp_node))
        exact = z3.UGT(F * 100, PCT * T)
        s = z3.Solver()
        s.set("timeout", int(tmo))
        s.add(z3.ULE(F, T), z3.UGE(T, 1), z3.ULE(T, 128), z3.ULE(PCT, 100), got != exact)
        r = str(s.check())
        queries += 1
        if r == "sat":
            m = s.model()
            f, t, p = m[F].as_long(), m[T].as_long(), m[PCT].as_long()
            c = ExecutionCounters(t, t, None, p)
            c.failure_count = f
            real = c.is_failure_tolerance_exceeded()
            want = 100 * f > p * t
            return {"verdict": "REFUTED", "queries": queries, "reproduced": real != want, "call": f"percentage_kernel()  # failures={f} total={t} pct={p}",
                    "detail": f"{desc}: {f} failures of {t} with tolerated_failure_percentage={p}: code says exceeded={real}, exact 100*f > pct*t is {want} (float rounding)"}
        if r != "unsat":
            return {"verdict": "UNKNOWN", "queries": queries, "detail": f"solver {r} at {desc}"}
    if sites_found == 0:
        raise P.Untranslatable("no percentage test found anywhere in concurrency/models.py")
    # vacuity guard: a wrong reference must be refutable
    g = z3.Solver()
    g.add(z3.ULE(F, T), z3.UGE(T, 1), z3.ULE(T, 128), z3.ULE(PCT, 100), z3.UGT(F * 100, PCT * T) != z3.UGE(F * 100, PCT * T))
    if str(g.check()) != "sat":
        return {"verdict": "ERROR", "queries": queries, "detail": "vacuity guard failed"}
    return {"verdict": "CONFIRMED", "queries": queries + 1, "detail": f"unsat at all {sites_found} sites: the percentage test equals the exact comparison"}


# ------------------------------------------------------------------------------------------------ executor lemmas (world: harness/exec_world.py)
from harness import exec_world as XW  # noqa: E402

ASSUMPTIONS = ASSUMPTIONS + XW.ASSUMPTIONS_EXEC
XFUNCS = ["concurrency.executor.ConcurrentExecutor.execute/_on_task_complete/should_execution_suspend/_create_result/_execute_item_in_child_context",
          "concurrency.executor.TimerScheduler.*", "concurrency.models.ExecutableWithState.*", "concurrency.models.ExecutionCounters.*",
          "concurrency.models.BatchResult.from_items", "operation.child.child_handler", "operation.map.MapExecutor", "operation.parallel.ParallelExecutor"]
BEH = [("ok", None), ("fail", "boom"), ("never",), ("park",)]


def spec_decided(s, f, t, ms, tc):
    all_done = s + f == t
    min_reached = s >= (ms if ms is not None else t)
    tol = (tc is not None and f > tc) or (tc is None and f > 0)
    return all_done or min_reached or tol


def _mk_exec(n, is_map, mc_fixed=None, interleave=None):
    def lem(b0: int, b1: int, b2: int, has_min: bool, ms: int, has_tc: bool, tc: int, mc: int, c0: int, c1: int, c2: int):
        """
        pre: 0 <= b0 < 4 and 0 <= b1 < 4 and 0 <= b2 < 4
        pre: 1 <= ms <= 3 and 0 <= tc <= 2 and 0 <= mc <= 2 and 0 <= c0 < 3 and 0 <= c1 <= 14 and 0 <= c2 < 3
        post: True
        """
        kinds = [b0, b1, b2][:n]
        if has_min and ms > max(n, 1):
            return
        if mc_fixed is not None and mc != mc_fixed:
            return
        if interleave is None:
            if c1 != 0 or c2 != 0:
                return      # policy lemmas: only the order in which running branches finish is solver-chosen; done-callbacks run atomically
        else:
            # interleaving lemmas: fixed policy, both branches finish; the solver interleaves the two done-callbacks and the released caller
            want_min, want_tc = interleave
            if has_min != (want_min is not None) or (has_min and ms != want_min) or has_tc != (want_tc is not None) or (has_tc and tc != want_tc) or mc != 0:
                return
            if b0 > 1 or b1 > 1:
                return
        beh = []
        never = []
        for i, k in enumerate(kinds):
            if BEH[k][0] == "ok":
                beh.append(("ok", (i, "v")))
            elif BEH[k][0] == "never":
                beh.append(("ok", (i, "late")))
                never.append(i)
            else:
                beh.append(BEH[k])
        script = XW.Script(beh)
        cfg = CompletionConfig(ms if has_min else None, tc if has_tc else None, None)
        world = XW.World(choices=[c0], never=never, preempt=[(c1, c2)] if interleave is not None else ())
        ex = XW.make_executor(script, is_map, cfg, mc if mc > 0 else None)
        state = {"s": 0, "f": 0, "parked": 0}

        def on_action(w):
            # only at points where no done-callback is in flight (every finished branch has been fully accounted for)
            if not all(c["done"] for c in w.callbacks):
                return
            s = sum(1 for i in range(n) if script.entries[i] > 0 and script.b[i][0] == "ok" and i not in never)
            f = sum(1 for i in range(n) if script.entries[i] > 0 and script.b[i][0] == "fail")
            p = sum(1 for i in range(n) if script.entries[i] > 0 and script.b[i][0] == "park")
            decided = spec_decided(s, f, n, cfg.min_successful, cfg.tolerated_failure_count)
            all_parked_or_done = (s + f + p == n) and p > 0
            h.check(XW.completion_event(ex).is_set() == (decided or all_parked_or_done),
                    "execute() must be released exactly when the policy is decided (or every unfinished branch is parked) - not earlier, not later")

        world.on_action = on_action
        (kind, val), st = XW.run_execute(ex, world)
        pool = XW.VExecPool.last
        if n == 0:
            h.reach("zero")
            h.check(kind == "ret", "a map/parallel over zero items must return an empty result, not raise or hang")
            h.check(len(val.all) == 0)
            h.end()
            return
        # (how the limit is enforced - pool size or otherwise - is the implementation's business; what is observed is the number of branches running at once)
        h.check(pool.max_running_seen <= (mc if mc > 0 else n), "more branches ran at once than the concurrency limit allows")
        s = sum(1 for i in range(n) if script.entries[i] > 0 and script.b[i][0] == "ok" and i not in never)
        f = sum(1 for i in range(n) if script.entries[i] > 0 and script.b[i][0] == "fail")
        p = sum(1 for i in range(n) if script.entries[i] > 0 and script.b[i][0] == "park")
        if kind == "deadlock":
            # only legitimate if some branch never finishes and the policy cannot be decided without it
            h.check(len(never) > 0 and not spec_decided(s, f, n, cfg.min_successful, cfg.tolerated_failure_count),
                    "execute() hangs although the policy is decided or every branch has finished/parked")
            h.reach("blocked")
            h.end()
            return
        if kind == "suspend":
            h.reach("suspended")
            h.check(not spec_decided(s, f, n, cfg.min_successful, cfg.tolerated_failure_count), "suspended although the completion policy was decided")
            h.check(p > 0 and s + f + p == n, "suspended while a branch was still running or had not started")
            h.end()
            return
        h.check(kind == "ret", "execute() raised")
        h.reach("returned")
        res = val
        h.check(spec_decided(s, f, n, cfg.min_successful, cfg.tolerated_failure_count), "returned before the policy was decided")
        h.check(len(res.all) == n and [it.index for it in res.all] == list(range(n)), "one item per input, in input order")
        accounted = {id(c["future"]) for c in world.callbacks if c["done"]}
        done_idx = {f.args[1].index for f in world.finished_order if id(f) in accounted}
        for i, it in enumerate(res.all):
            ran = script.entries[i] > 0
            if it.status is BatchItemStatus.SUCCEEDED:
                h.check(ran and script.b[i][0] == "ok" and i not in never and it.result == (i, "v"), "an item reported succeeded must carry that branch's own result")
            elif it.status is BatchItemStatus.FAILED:
                h.check(ran and script.b[i][0] == "fail" and it.error is not None and it.error.message == "boom", "an item reported failed must carry that branch's own error")
            else:
                h.check(it.result is None and it.error is None)
                h.check(not (i in done_idx and script.b[i][0] in ("ok", "fail")),
                        "a branch whose completion was fully recorded before the decision is reported as started")
        want = BatchResult.from_items(res.all, cfg).completion_reason
        h.check(res.completion_reason is want)
        if res.completion_reason is CompletionReason.ALL_COMPLETED:
            h.check(all(it.status is not BatchItemStatus.STARTED for it in res.all), "ALL_COMPLETED although an item is reported as started")
        if res.completion_reason is CompletionReason.MIN_SUCCESSFUL_REACHED:
            h.check(cfg.min_successful is not None and res.success_count >= cfg.min_successful, "MIN_SUCCESSFUL_REACHED without enough succeeded items")
        h.end()

    lem.__name__ = lem.__qualname__ = (f"executor_{n}_branches_{'map' if is_map else 'parallel'}" + (f"_mc{mc_fixed}" if mc_fixed is not None else "")
                                       + (f"_interleave_min{interleave[0]}_tol{interleave[1]}" if interleave is not None else ""))
    reach = ("end", "zero") if n == 0 else (("end", "returned", "suspended") + (("blocked",) if n >= 2 else ()))
    if interleave is not None:
        reach = ("end", "returned")
    return h.lemma(timeout=600, thorough_timeout=2400, funcs=XFUNCS, reach=reach, tier="quick" if n <= 2 else "thorough",
                   bounds=f"{n} branches of a {'map' if is_map else 'parallel'}, each: succeeds / fails / never finishes / parks on a callback; min_successful None or 1..3, "
                          "tolerated_failure_count None or 0..2; max_concurrency None/1/2; which running branch finishes next is solver-chosen; in the *_interleave_* lemmas one solver-chosen preemption (action number 0..14, target activity) of a running done-callback")(lem)


for _n in (0, 1, 2):
    for _m in (True, False):
        _f = _mk_exec(_n, _m)
        globals()[_f.__name__] = _f
for _il in ((None, None), (1, None), (None, 1)):
    _f = _mk_exec(2, False, None, _il)
    globals()[_f.__name__] = _f
for _m in (True, False):
    for _c in (0, 1, 2):
        _f = _mk_exec(3, _m, _c)
        globals()[_f.__name__] = _f
del _f, _n, _m, _c, _il

# "...the same batch result is delivered when the call is replayed": real ConcurrentExecutor.replay (lemma shared with C16)
from harness import C16 as _C16  # noqa: E402

replay_same_batch_result = _C16.batch_replay
replay_same_batch_result.__module__ = __name__
