"""C09 - map/parallel honour the completion policy and report branches faithfully.

  policy_consistency (SX): real ExecutionCounters.should_complete / should_continue / is_complete and BatchResult._get_completion_reason /
       from_items over every (total <= 5, successes, failures) and a symbolic policy (min_successful, tolerated_failure_count, integer
       tolerated_failure_percentage, each possibly None): the executor stops exactly when the policy is decided, and the reason reported for the
       items at that moment is consistent with the item statuses and the policy.
  percentage_kernel (z3 QF_BVFP, from the AST): the percentage tests of models.py in IEEE double arithmetic agree with the exact rational
       comparison 100*f > pct*t for all 0 <= f <= t <= 128 and integer pct in 0..100.
  executor lemmas (world harness/exec_world.py): decision timing, concurrency limit, item order/content, zero items, replay.
"""
from __future__ import annotations

from vk import h

h.quiet_logging()

from aws_durable_execution_sdk_python.concurrency.models import (  # noqa: E402
    BatchItem, BatchItemStatus, BatchResult, CompletionReason, ExecutionCounters,
)
from aws_durable_execution_sdk_python.config import CompletionConfig  # noqa: E402

ASSUMPTIONS = [
    "percentages are integers (a float percentage such as 33.3 has no exact decimal meaning in binary floating point; outside the claim)",
    "policy semantics as implemented and documented in ExecutionCounters: no tolerance configured => fail-fast on the first failure; min_successful None => all items",
    "z3 query: ints are 64-bit bit-vectors converted with round-to-nearest-even, doubles are IEEE binary64",
]
FUNCS = ["concurrency.models.ExecutionCounters.should_complete/should_continue/is_complete/_is_failure_condition_reached/is_failure_tolerance_exceeded",
         "concurrency.models.BatchResult._get_completion_reason/from_items"]

MAXT = 6 if h.THOROUGH else 5


def exceeded(fail, total, tol_cnt, tol_pct):
    if tol_cnt is not None and fail > tol_cnt:
        return True
    if tol_pct is not None and total > 0 and 100 * fail > tol_pct * total:
        return True
    return False


@h.lemma(timeout=400, thorough_timeout=1800, funcs=FUNCS, reach=("end", "decided", "undecided", "minreached", "exceeded"),
         bounds="total 1..5 items (6 thorough), successes + failures <= total, min_successful None or 1..total, tolerated_failure_count None or any int >= 0, "
                "tolerated_failure_percentage None or any int 0..100")
def policy_consistency(total: int, succ: int, fail: int, has_min: bool, min_succ: int, has_cnt: bool, tol_cnt: int, has_pct: bool, tol_pct: int):
    """
    pre: 1 <= total <= MAXT and 0 <= succ and 0 <= fail and succ + fail <= total
    pre: 1 <= min_succ <= total and 0 <= tol_cnt and 0 <= tol_pct <= 100
    post: True
    """
    # make the counts concrete (they are small): the float expression in the code then only meets a symbolic threshold
    t = [1, 2, 3, 4, 5, 6][total - 1]
    s = list(range(7))[succ]
    f = list(range(7))[fail]
    ms = min_succ if has_min else None
    tc = tol_cnt if has_cnt else None
    tp = tol_pct if has_pct else None
    cfg = CompletionConfig(ms, tc, tp)
    c = ExecutionCounters(t, cfg.min_successful or t, tc, tp)
    c.success_count, c.failure_count = s, f
    decided = c.should_complete()
    all_done = s + f == t
    min_reached = s >= (ms if ms is not None else t)
    fail_fast = tc is None and tp is None
    tol_exceeded = exceeded(f, t, tc, tp) or (fail_fast and f > 0)
    h.check(decided == (all_done or min_reached or tol_exceeded),
            "the executor must stop exactly when the policy is decided (all finished / minimum successes reached / failure tolerance exceeded)")
    if not decided:
        h.reach("undecided")
        h.end()
        return
    h.reach("decided")
    items = ([BatchItem(i, BatchItemStatus.SUCCEEDED, i) for i in range(s)] + [BatchItem(s + i, BatchItemStatus.FAILED) for i in range(f)]
             + [BatchItem(s + f + i, BatchItemStatus.STARTED) for i in range(t - s - f)])
    br = BatchResult.from_items(items, cfg)
    r = br.completion_reason
    if r is CompletionReason.ALL_COMPLETED:
        h.check(all_done, "ALL_COMPLETED reported although a branch is still unfinished")
    elif r is CompletionReason.MIN_SUCCESSFUL_REACHED:
        h.reach("minreached")
        h.check(ms is not None and s >= ms, "MIN_SUCCESSFUL_REACHED reported without the minimum")
    else:
        h.reach("exceeded")
        h.check(tol_exceeded, "FAILURE_TOLERANCE_EXCEEDED reported although the tolerance holds")
    h.check(c.is_failure_tolerance_exceeded() == exceeded(f, t, tc, tp))
    h.check(br.total_count == t and br.success_count == s and br.failure_count == f and br.started_count == t - s - f)
    h.end()


def _pct_sites():
    """(function, description) of every percentage test in models.py"""
    return [(ExecutionCounters.should_continue, "should_continue"), (ExecutionCounters._is_failure_condition_reached, "_is_failure_condition_reached"),
            (BatchResult._get_completion_reason, "_get_completion_reason")]


@h.lemma(timeout=600, thorough_timeout=1800, funcs=FUNCS, kind="qz",
         bounds="0 <= failures <= total <= 128, total >= 1, integer percentage 0..100; IEEE double semantics bit-exact (z3 QF_BVFP); 3 code sites, "
                "expressions extracted from the AST of models.py")
def percentage_kernel():
    import ast
    import os
    import z3
    from vk import py2smt as P

    F, T, PCT = z3.BitVecs("F T PCT", 64)
    queries = 0
    tmo = float(os.environ.get("VK_QZ_TIMEOUT", "600")) * 1000 / 4
    for fn, desc in _pct_sites():
        tree = P.fn_ast(fn)
        # find:  <name> = (<f> / <t>) * 100   and the comparison  <name> > <pct>
        assign = None
        for node in ast.walk(tree):
            if isinstance(node, ast.Assign) and isinstance(node.value, ast.BinOp) and any(isinstance(x, ast.Div) for x in [n.op for n in ast.walk(node.value) if isinstance(n, ast.BinOp)]):
                assign = node
        cmp_node = None
        if assign is not None:
            tgt = assign.targets[0].id
            for node in ast.walk(tree):
                if isinstance(node, ast.Compare) and isinstance(node.left, ast.Name) and node.left.id == tgt:
                    cmp_node = node
        else:
            # no float percentage variable: expect a direct integer comparison  f * 100 > pct * t
            for node in ast.walk(tree):
                if isinstance(node, ast.Compare) and any(isinstance(n, ast.Mult) for n in [b.op for b in ast.walk(node) if isinstance(b, ast.BinOp)]):
                    cmp_node = node
        if cmp_node is None:
            raise P.Untranslatable("percentage test not found in " + desc)

        def intr(tr, node):
            # attribute / name leaves: failure count, total, percentage (by name)
            name = node.attr if isinstance(node, ast.Attribute) else (node.id if isinstance(node, ast.Name) else None)
            if name in ("failure_count",):
                return ("bvint", F)
            if name in ("total_tasks", "total_count"):
                return ("bvint", T)
            if name in ("tolerated_failure_percentage", "tolerated_percentage"):
                return ("bvint", PCT)
            return None

        tr = P.Tr({}, intr, "fp")
        if assign is not None:
            tr.env[assign.targets[0].id] = tr.expr(assign.value)
        got = tr.truth(tr.expr(cmp_node))
        exact = z3.UGT(F * 100, PCT * T)
        s = z3.Solver()
        s.set("timeout", int(tmo))
        s.add(z3.ULE(F, T), z3.UGE(T, 1), z3.ULE(T, 128), z3.ULE(PCT, 100), got != exact)
        r = str(s.check())
        queries += 1
        if r == "sat":
            m = s.model()
            f, t, p = m[F].as_long(), m[T].as_long(), m[PCT].as_long()
            c = ExecutionCounters(t, t, None, p)
            c.failure_count = f
            real = c.is_failure_tolerance_exceeded()
            want = 100 * f > p * t
            return {"verdict": "REFUTED", "queries": queries, "reproduced": real != want, "call": f"percentage_kernel()  # failures={f} total={t} pct={p}",
                    "detail": f"{desc}: {f} failures of {t} with tolerated_failure_percentage={p}: code says exceeded={real}, exact 100*f > pct*t is {want} (float rounding)"}
        if r != "unsat":
            return {"verdict": "UNKNOWN", "queries": queries, "detail": f"solver {r} at {desc}"}
    # vacuity guard: a wrong reference must be refutable
    g = z3.Solver()
    g.add(z3.ULE(F, T), z3.UGE(T, 1), z3.ULE(T, 128), z3.ULE(PCT, 100), z3.UGT(F * 100, PCT * T) != z3.UGE(F * 100, PCT * T))
    if str(g.check()) != "sat":
        return {"verdict": "ERROR", "queries": queries, "detail": "vacuity guard failed"}
    return {"verdict": "CONFIRMED", "queries": queries + 1, "detail": "unsat at all 3 sites: the percentage test equals the exact comparison"}
