"""World for map/parallel: the REAL ConcurrentExecutor.execute / _on_task_complete / should_execution_suspend / _create_result /
_execute_item_in_child_context, TimerScheduler (timer loop coroutine-lowered), ExecutableWithState, ExecutionCounters, BatchResult and
child_handler, with the thread pool, the timer thread, Event and clock replaced by a solver-driven model:

  * VExecPool models concurrent.futures.ThreadPoolExecutor/Future per its documented contract: max_workers <= 0 -> ValueError; tasks start in
    submission order while fewer than max_workers are running; a task's exception (BaseException included) is stored on its future; done-callbacks
    run when the task finishes or is cancelled; an Exception raised by a callback is swallowed, any other BaseException kills the worker thread
    (and nothing else); cancel() succeeds only for tasks that have not started; shutdown(cancel_futures=True) cancels queued tasks.
  * A branch body runs atomically at the moment the solver lets the task FINISH; a task may also never finish (blocked / long-running user code).
    Which running task finishes next, and when the timer thread runs, are solver choices made while the caller blocks in completion_event.wait().
  * A blocked caller with no enabled action is a Deadlock ("the call never returns").
"""
from __future__ import annotations

from vk import colower, h, sched
from harness import batcher  # noqa: F401  stub Event/queue classes
from harness.common import FUTURE_DT, NOW, OID, PID, ST, FakeState

import aws_durable_execution_sdk_python.concurrency.executor as E
import aws_durable_execution_sdk_python.concurrency.models as M
from aws_durable_execution_sdk_python.exceptions import SuspendExecution, TimedSuspendExecution

ASSUMPTIONS_EXEC = [
    "thread pool / futures modelled per the concurrent.futures contract (see harness/exec_world.py docstring); branch bodies run atomically when they finish; "
    "a branch may never finish; completion order and timer activity are solver choices made while execute() blocks on its completion event",
    "TimerScheduler._timer_loop is coroutine-lowered from source (yield at every _shutdown.wait); Event.wait(timeout) lets virtual time pass",
    "the done-callback _on_task_complete is coroutine-lowered from source (preemption point before every state transition, counter update, policy test and "
    "event set): callbacks of different branches and the released caller interleave at these points under solver control",
    "branch bodies are scripted: return a value / raise an Exception / park indefinitely (SuspendExecution) / park until t (TimedSuspendExecution) / raise a "
    "checkpoint failure (BackgroundThreadError) / never finish; the execution state is harness.common.FakeState (checkpoints logged, backend contract applied)",
]


class Deadlock(sched.Deadlock):
    pass


class WorkerDied(BaseException):
    pass


class Clock:
    now = float(NOW)

    @staticmethod
    def time():
        return Clock.now


class VFuture:
    def __init__(self, pool, fn, args):
        self.pool, self.fn, self.args = pool, fn, args
        self.state = "queued"      # queued | running | done | cancelled
        self.value = None
        self.exc = None
        self.cbs = []
        self.never = False

    def add_done_callback(self, cb):
        if self.state in ("done", "cancelled"):
            # concurrent.futures contract: the callback of an already finished future is called immediately, IN THE CALLING THREAD
            self.pool.sync_callback = True
            try:
                self._call(cb)
            finally:
                self.pool.sync_callback = False
        else:
            self.cbs.append(cb)

    def _call(self, cb):
        # the done-callback is registered as a coroutine (see _deferred_on_task_complete); here it only gets created
        try:
            cb(self)
        except Exception:  # noqa: BLE001  (swallowed and logged by concurrent.futures)
            pass

    def cancel(self):
        if self.state == "queued":
            self.state = "cancelled"
            if self in self.pool.queue:
                self.pool.queue.remove(self)
            for cb in list(self.cbs):
                self._call(cb)
            return True
        return self.state == "cancelled"

    def cancelled(self):
        return self.state == "cancelled"

    def done(self):
        return self.state in ("done", "cancelled")

    def result(self, timeout=None):
        if self.state == "cancelled":
            from concurrent.futures import CancelledError
            raise CancelledError()
        if self.state != "done":
            raise Deadlock("future.result() on an unfinished future")
        if self.exc is not None:
            raise self.exc
        return self.value


class VExecPool:
    last = None

    def __init__(self, max_workers=None, **kw):
        if max_workers is not None and max_workers <= 0:
            raise ValueError("max_workers must be greater than 0")
        self.max_workers = max_workers
        self.queue = []
        self.running = []
        self.all = []
        self.max_running_seen = 0
        self.in_callback = []
        self.dead_workers = 0
        self.is_shutdown = False
        self.sync_callback = False
        VExecPool.last = self

    def submit(self, fn, *args):
        if self.is_shutdown:
            raise RuntimeError("cannot schedule new futures after shutdown")
        f = VFuture(self, fn, args)
        self.queue.append(f)
        self.all.append(f)
        self._start_ready()
        w = World.current
        if w is not None:
            k = w.submits
            w.submits += 1
            idx = getattr(args[1], "index", None) if len(args) > 1 else None
            if k in w.eager and f.state == "running" and idx not in w.never and idx not in w.late:
                # a free worker picked the task up and ran it to its end before the submitting thread continued (legal for concurrent.futures)
                w.finished_order.append(f)
                self.finish(f)
                f.finished_eagerly = True
        return f

    def _start_ready(self):
        while self.queue and len(self.running) + len(self.in_callback) + self.dead_workers < (self.max_workers or 10**9):
            f = self.queue.pop(0)
            f.state = "running"
            self.running.append(f)
        self.max_running_seen = max(self.max_running_seen, len(self.running))

    def finish(self, f):
        """the solver lets running task f run to its end now"""
        assert f.state == "running"
        try:
            f.value = f.fn(*f.args)
        except BaseException as e:  # noqa: BLE001  concurrent.futures stores any BaseException on the future
            if not (isinstance(e, Exception) or type(e).__module__.startswith("aws_durable_execution_sdk_python")):
                raise
            f.exc = e
        f.state = "done"
        self.running.remove(f)
        self.in_callback.append(f)      # the worker stays busy until its done-callbacks have run
        for cb in list(f.cbs):
            f._call(cb)
        w = World.current
        if w is not None and not any(c["future"] is f and not c["done"] for c in w.callbacks):
            self.callback_finished(f, died=False)
        return False

    def callback_finished(self, f, died):
        if f in self.in_callback:
            self.in_callback.remove(f)
        if died:
            self.dead_workers += 1    # the worker thread died with a BaseException raised by the callback
        self._start_ready()

    def shutdown(self, wait=True, cancel_futures=False):
        self.is_shutdown = True
        if cancel_futures:
            for f in list(self.queue):
                f.cancel()
        if wait:
            # shutdown(wait=True) joins the worker threads: it returns only when every running (and still queued) task has finished
            w = World.current
            while self.running or self.queue:
                self._start_ready()
                runnable = [f for f in self.running
                            if w is None or (getattr(f.args[1], "index", None) if len(f.args) > 1 else None) not in w.never]
                if not runnable:
                    raise Deadlock("ThreadPoolExecutor.shutdown(wait=True) waits for a branch whose user code is still running")
                f = runnable[0]
                if w is not None:
                    w.finished_order.append(f)
                self.finish(f)
                if w is not None:
                    w.drain_callbacks()

    def __enter__(self):
        return self

    def __exit__(self, *a):
        self.shutdown()
        return False


class World:
    """installs the model into the executor module and drives execute()"""

    current = None

    def __init__(self, choices=(), never=(), max_actions=40, preempt=(), late=(), eager=()):
        self.choices = list(choices)   # solver-chosen action whenever the current activity has ended and several are enabled
        self.ci = 0
        self.preempt = list(preempt)   # [(action number, index into enabled)]: solver-chosen preemptions of the running callback
        self.cur_cb = None
        self.never = set(never)        # branch indices that never finish
        self.late = set(late)          # branch indices that finish only when nothing else can happen (long-running user code)
        self.eager = set(eager)        # ordinal numbers of submit() calls whose task has FINISHED before submit's caller gets to add_done_callback
        self.submits = 0
        self.timer_dead = None         # BaseException that killed the timer thread
        self.actions = 0
        self.max_actions = max_actions
        self.timer = None              # TimerScheduler instance
        self.timer_gen = None
        self.finished_order = []
        self.on_action = None          # callback(world) after each action (oracles on intermediate states)
        self.worker_died = False
        self.callbacks = []            # done-callbacks in flight: {"gen", "future", "done"}
        World.current = self
        Clock.now = float(NOW)

    # ---- scheduling while the caller is blocked on the completion event
    def enabled(self):
        pool = VExecPool.last
        acts = []
        for c in self.callbacks:
            if not c["done"]:
                acts.append(("cb", c))
        if pool is not None:
            for f in pool.running:
                idx = getattr(f.args[1], "index", None) if len(f.args) > 1 else None
                if idx not in self.never and idx not in self.late:
                    acts.append(("finish", f))
        if self.timer is not None and self.timer_dead is None and timer_pending(self.timer) and not timer_stop_event(self.timer).is_set():
            acts.append(("timer", None))
        if not acts and pool is not None:
            for f in pool.running:
                idx = getattr(f.args[1], "index", None) if len(f.args) > 1 else None
                if idx in self.late:
                    acts.append(("finish", f))
        return acts

    def block_on(self, ev):
        while not ev.is_set():
            acts = self.enabled()
            if not acts:
                raise Deadlock("execute() blocks forever: no branch can finish, no timer is pending and the completion event is not set")
            self.actions += 1
            if self.actions > self.max_actions:
                raise Deadlock("execute() did not return within the action bound (livelock: timers keep re-arming)")
            k = None
            for (step_no, to) in self.preempt:
                if step_no == self.actions and 0 <= to < len(acts):
                    k = to
            if k is None and self.cur_cb is not None and not self.cur_cb["done"]:
                k = [i for i, a in enumerate(acts) if a[0] == "cb" and a[1] is self.cur_cb][0]   # a running callback continues unless preempted
            if k is None:
                k = 0
                if len(acts) > 1 and self.ci < len(self.choices):
                    k = self.choices[self.ci]
                    self.ci += 1
                    if not (0 <= k < len(acts)):
                        k = 0
            kind, f = acts[k]
            if kind == "cb":
                self.cur_cb = f
            if kind == "finish":
                self.finished_order.append(f)
                VExecPool.last.finish(f)
                mine = [c for c in self.callbacks if c["future"] is f and not c["done"]]
                self.cur_cb = mine[0] if mine else None     # the worker goes straight on to the done-callback
            elif kind == "cb":
                self.step_callback(f)
            else:
                self.timer_step()
            if self.on_action is not None:
                self.on_action(self)

    def step_callback(self, c):
        """one segment (up to the next operation on shared state) of a done-callback running on its worker thread"""
        try:
            c["gen"].send(None)
            return
        except StopIteration:
            c["done"] = True
            died = False
        except Exception:  # noqa: BLE001  concurrent.futures logs and swallows an Exception raised by a callback
            c["done"] = True
            died = False
        except BaseException as e:  # noqa: BLE001
            if not type(e).__module__.startswith("aws_durable_execution_sdk_python"):
                raise
            c["done"] = True
            died = True    # a BaseException from the callback propagates into the worker thread and kills it; nobody else sees it
            self.worker_died = True
        VExecPool.last.callback_finished(c["future"], died)

    def drain_callbacks(self):
        """let every in-flight callback run to its end (used after execute() returned)"""
        for c in self.callbacks:
            n = 0
            while not c["done"] and n < 50:
                self.step_callback(c)
                n += 1

    def timer_step(self):
        """the timer thread runs until its next wait; virtual time jumps to the next due resume if nothing is due yet"""
        t = self.timer
        pend = timer_pending(t)
        if pend and pend[0][0] > Clock.now:
            Clock.now = pend[0][0]
        if self.timer_gen is None:
            self.timer_gen = t._co__timer_loop()
        for _ in range(4):   # one loop iteration may need a couple of segments (peek, pop+resubmit)
            try:
                self.timer_gen.send(None)
            except StopIteration:
                self.timer_gen = None
                break
            except Deadlock:
                raise
            except BaseException as e:  # noqa: BLE001
                if not (isinstance(e, Exception) or type(e).__module__.startswith("aws_durable_execution_sdk_python")):
                    raise
                self.timer_dead = e    # an exception leaving _timer_loop ends the timer thread; nobody is told
                self.timer_gen = None
                break


class WEvent(sched.VEvent):
    """Event whose blocking wait hands control to the world's scheduler"""

    def wait(self, timeout=None):
        if timeout is not None:
            if not self.flag:
                Clock.now += timeout
            return self.flag
        if not self.flag and World.current is not None:
            World.current.block_on(self)
        return self.flag



def timer_pending(t):
    """the scheduler's heap of (resume_time, seq, exe_state): found by type - private names are the implementation's business"""
    for v in vars(t).values():
        if isinstance(v, list):
            return v
    raise AssertionError("TimerScheduler has no list attribute (pending resumes)")


def timer_stop_event(t):
    for v in vars(t).values():
        if isinstance(v, WEvent):
            return v
    raise AssertionError("TimerScheduler has no Event attribute (shutdown signal)")


def completion_event(ex):
    for v in vars(ex).values():
        if isinstance(v, WEvent):
            return v
    raise AssertionError("executor has no Event attribute (completion signal)")


class VThread:
    def __init__(self, target=None, daemon=None, **kw):
        self.target = target

    def start(self):
        w = World.current
        if w is not None:
            w.timer = self.target.__self__

    def join(self, timeout=None):
        pass

    def is_alive(self):
        return False


class _Threading:
    Event = WEvent
    Thread = VThread

    class Lock:
        """threading.Lock is NOT re-entrant: every critical section of the modelled code is atomic in this world (no yield point inside),
        so the only way to find the lock held is the holder acquiring it again - which blocks that thread forever"""

        def __init__(self):
            self.held = False

        def __enter__(self):
            if self.held:
                raise Deadlock("a thread acquires a non-reentrant lock it already holds (blocks forever, and so does everybody who needs that lock later)")
            self.held = True
            return self

        def __exit__(self, *a):
            self.held = False
            return False


_installed = {}


def install():
    if _installed:
        return
    E.ThreadPoolExecutor = VExecPool
    E.threading = _Threading
    E.time = Clock
    M.time = Clock
    M.threading = _Threading
    # (a timed Event.wait is where the timer thread sleeps; the attribute holding the event is found by its call shape, not by its private name)
    _installed["timer"] = colower.lower_method(E.TimerScheduler, "_timer_loop", {"wait"})
    assert _installed["timer"] >= 2, _installed
    CB_POINTS = {"complete", "fail", "suspend", "suspend_with_timeout", "complete_task", "fail_task", "schedule_resume", "should_complete",
                 "should_execution_suspend", "set", "result"}
    _installed["callback"] = colower.lower_method(E.ConcurrentExecutor, "_on_task_complete", CB_POINTS)
    assert _installed["callback"] >= 6, _installed

    def _deferred_on_task_complete(self, exe_state, future, scheduler):
        w = World.current
        gen = self._co__on_task_complete(exe_state, future, scheduler)
        if getattr(future.pool, "sync_callback", False):
            # called from add_done_callback on a finished future: runs to its end right here, on the caller's thread
            for _ in gen:
                pass
            return
        c = {"gen": gen, "future": future, "done": False}
        w.callbacks.append(c)

    E.ConcurrentExecutor._on_task_complete = _deferred_on_task_complete
    import aws_durable_execution_sdk_python.exceptions as EXC
    EXC.time = Clock


install()


# ---------------------------------------------------------------------------------------------- scripted branches
class Script:
    """behaviour of branch i: ('ok', v) | ('fail', msg) | ('park',) | ('park_until', dt_seconds) | ('bgerr',) | ('ok_after_park', v, dt)"""

    def __init__(self, behaviours):
        self.b = list(behaviours)
        self.entries = [0] * len(self.b)

    def run(self, i, ctx):
        self.entries[i] += 1
        b = self.b[i]
        if b[0] == "ok":
            return b[1]
        if b[0] == "fail":
            raise ValueError(b[1])
        if b[0] == "park":
            raise SuspendExecution("parked on a callback")
        if b[0] == "park_until":
            raise TimedSuspendExecution("parked on a timer", Clock.now + b[1])
        if b[0] == "ok_after_park":
            if self.entries[i] == 1:
                raise TimedSuspendExecution("parked on a timer", Clock.now + b[2])
            return b[1]
        if b[0] == "bgerr":
            from aws_durable_execution_sdk_python.exceptions import BackgroundThreadError
            raise BackgroundThreadError("Checkpoint creation failed", RuntimeError("api down"))
        raise AssertionError("unknown behaviour")


def make_executor(script: Script, is_map, completion_config, max_concurrency):
    from aws_durable_execution_sdk_python.config import MapConfig, ParallelConfig
    from aws_durable_execution_sdk_python.operation.map import MapExecutor
    from aws_durable_execution_sdk_python.operation.parallel import ParallelExecutor

    n = len(script.b)
    if is_map:
        return MapExecutor.from_items(list(range(n)), lambda ctx, item, idx, items: script.run(idx, ctx),
                                      MapConfig(max_concurrency=max_concurrency, completion_config=completion_config))
    fns = [(lambda i: (lambda ctx: script.run(i, ctx)))(i) for i in range(n)]
    return ParallelExecutor.from_callables(fns, ParallelConfig(max_concurrency=max_concurrency, completion_config=completion_config))


def run_execute(ex, world: World, state=None, parent_id="mapop"):
    """returns ('ret', BatchResult) | ('suspend', exc) | ('raise', exc) | ('deadlock', d)"""
    from harness.C08 import mk_ctx

    st = state or FakeState(None)
    exec_ctx = mk_ctx(st).create_child_context(parent_id)
    try:
        r = ex.execute(st, exec_ctx)
        return ("ret", r), st
    except Deadlock as d:
        return ("deadlock", d), st
    except SuspendExecution as e:
        return ("suspend", e), st
    except Exception as e:  # noqa: BLE001
        return ("raise", e), st
    except BaseException as e:  # noqa: BLE001
        if type(e).__module__.startswith("aws_durable_execution_sdk_python"):
            return ("raise", e), st
        raise
