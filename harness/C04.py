"""C04 - at-most-once steps start their function at most once per attempt.

Inductive lemma over the record an invocation can find (any crash point between 'attempt start recorded' and
'attempt outcome recorded' leaves exactly one of these records):
  absent              -> never started
  STARTED(a)          -> attempt a+1 was started and the invocation died inside/after the function
  PENDING(a)          -> a retry was recorded, timer not fired
  READY(a)            -> timer fired, attempt a+1 may start
For every such record, every retry decision and both `is_replaying` answers, the real executor
  (i)  never enters the function when it finds STARTED (the attempt is treated as interrupted: the strategy is
       consulted with a+1 and RETRY or FAIL is recorded);
  (ii) enters the function only after a synchronous START was accepted in this run and the refreshed record is
       STARTED - so a crash inside the function leaves STARTED, and (i) applies to the next invocation.
By induction over invocations the function is entered at most once per attempt number.
"""
from __future__ import annotations

from vk import h
from harness.common import ASSUMPTIONS_COMMON, OID, ST, FakeState
from harness.steps import STEP_FUNCS, make_record, run_step
from aws_durable_execution_sdk_python.exceptions import InvalidStateError, StepInterruptedError
from aws_durable_execution_sdk_python.lambda_service import OperationAction as A

ASSUMPTIONS = ASSUMPTIONS_COMMON + [
    "a crash is modelled by the record it leaves behind (inductive step); the backend applies START as STARTED keeping the attempt count",
    "ExecutionState.is_replaying() answers arbitrarily (solver-chosen)",
]


def _run(rec, fails, retry, delay, replaying, lossy_start=False):
    import harness.steps as S
    from harness.common import FakeState as FS

    class St(FS):
        def is_replaying(self):
            return replaying

        def _apply(self, u):
            if lossy_start and u is not None and u.action is A.START:
                return  # the checkpoint call returned but the record is not reflected in the state
            super()._apply(u)

    orig = S.FakeState
    S.FakeState = St
    try:
        return run_step(rec, True, fails, retry, delay)
    finally:
        S.FakeState = orig


@h.lemma(timeout=150, funcs=STEP_FUNCS, reach=("end", "entered", "interrupted", "ready"),
         bounds="AT_MOST_ONCE step, one process(): record absent/STARTED/PENDING/READY with/without details, attempt any int>=0, function ok/raises, "
                "strategy (retry?, delay any int>=0), is_replaying arbitrary")
def amo_once_per_attempt(exists: bool, status_idx: int, attempt: int, has_details: bool, has_err: bool, fails: bool, retry: bool,
                         delay: int, replaying: bool):
    """
    pre: 0 <= status_idx < 3 and 0 <= attempt and 0 <= delay
    post: True
    """
    rec = make_record(exists, status_idx, attempt, -1, has_err, 2, has_details)
    status = rec.status if rec else None
    a = attempt if (exists and has_details) else 0
    tr = _run(rec, fails, retry, delay, replaying)
    st = tr.state
    ev = st.events
    if status is ST.STARTED:
        h.reach("interrupted")
        h.check(not tr.calls, "a step found STARTED must be treated as interrupted, never run again")
        h.check(len(tr.strategy_calls) == 1 and tr.strategy_calls[0][1] == a + 1, "interrupted attempt must go through the retry strategy with attempt+1")
        h.check(isinstance(tr.strategy_calls[0][0], StepInterruptedError))
        acts = st.actions()
        h.check(acts == ([A.RETRY] if retry else [A.FAIL]) and st.log[-1][1], "interrupted attempt must be retried or failed durably")
        h.check(tr.kind == ("suspend" if retry else "raise"))
    if status is ST.PENDING:
        h.check(not tr.calls and not st.log)
    if tr.calls:
        h.reach("entered")
        if status is ST.READY:
            h.reach("ready")
        h.check(len(tr.calls) == 1)
        i_ufn = ev.index(("ufn",))
        starts = [i for i, e in enumerate(ev) if e[0] == "update" and e[1] is A.START]
        h.check(len(starts) == 1 and starts[0] < i_ufn, "the function was entered without a START recorded for this attempt in this run")
        h.check(ev[starts[0]][2] is True, "the START of an at-most-once attempt must be synchronous")
        at_entry = tr.calls[0]
        h.check(at_entry is not None and at_entry.status is ST.STARTED, "record at function entry must be STARTED")
        h.check(at_entry.step_details.attempt == a, "START must not change the attempt count")
    h.end()


@h.lemma(timeout=90, funcs=STEP_FUNCS, reach=("end",),
         bounds="AT_MOST_ONCE step whose synchronous START returned but is not reflected in the state (cooperating fault elsewhere): the function must not be entered")
def amo_start_not_reflected(ready: bool, attempt: int, fails: bool):
    """
    pre: 0 <= attempt
    post: True
    """
    rec = make_record(ready, 2, attempt, -1, False, 0, True)
    tr = _run(rec, fails, False, 1, False, lossy_start=True)
    h.check(not tr.calls, "function entered although the START record is not visible")
    h.end()


@h.lemma(timeout=120, funcs=STEP_FUNCS, reach=("end", "second"),
         bounds="two invocations: first finds absent/READY, records START and 'dies' inside the function (modelled by the record it leaves); second runs against that record")
def amo_crash_then_replay(ready: bool, attempt: int, retry: bool, delay: int):
    """
    pre: 0 <= attempt and 0 <= delay
    post: True
    """
    rec = make_record(ready, 2, attempt, -1, False, 0, True)
    tr1 = _run(rec, False, retry, delay, False)
    h.check(len(tr1.calls) == 1)
    left = tr1.calls[0]            # what the backend holds while the function runs = what a crash leaves behind
    h.check(left.status is ST.STARTED)
    tr2 = _run(left, False, retry, delay, True)
    h.reach("second")
    h.check(not tr2.calls, "the same attempt was run twice across a crash")
    h.check(tr2.strategy_calls[0][1] == (attempt if ready else 0) + 1)
    h.end()
