"""C16 - oversized results stay out of checkpoints and responses yet are fully recovered.

  child_size_threshold (SX, FakeState): real ChildOperationExecutor with a result whose serialized size is ANY int around CHECKPOINT_SIZE_LIMIT
       (json model with a symbolic length): size > limit <=> the SUCCEED record carries the summary (or '') and ReplayChildren=True; otherwise the full
       payload and ReplayChildren=False.  Replay of a ReplayChildren record re-runs the body, sends nothing and returns the rebuilt value.
  batch_replay (SX): real ConcurrentExecutor.replay over symbolic branch records (SUCCEEDED/FAILED/STARTED/absent) and a symbolic completion
       config rebuilds one item per index, in order, with the recorded status/result/error, the same completion reason a first run derives from
       those items, and runs no branch body.
  final_result_limit (composed world): the handler's final result has ANY size around the Lambda response limit, measured in BYTES (non-ASCII
       text): over the limit <=> recorded as the execution's result (synchronously, last update) before SUCCEEDED with an empty payload is returned;
       same for an oversized error (FAILED without payload after an EXECUTION FAIL record).
  large_child_replay (composed world): see also C02.t_large_child - a >256KB child result is rebuilt on replay with zero step re-executions and
       zero new records.
"""
from __future__ import annotations

from vk import h
from harness import common  # noqa: F401
from harness.common import ASSUMPTIONS_COMMON, OID, PID, ST, FakeState
from harness import ops
from harness.inv import ASSUMPTIONS_INV, Backend, run_execution
import aws_durable_execution_sdk_python.execution as X
import aws_durable_execution_sdk_python.serdes as SER
import aws_durable_execution_sdk_python.operation.child as CH
from aws_durable_execution_sdk_python.concurrency.models import BatchItemStatus, BatchResult
from aws_durable_execution_sdk_python.config import ChildConfig, CompletionConfig, Duration, MapConfig, ParallelConfig
from aws_durable_execution_sdk_python.lambda_service import ContextDetails, ErrorObject, Operation, OperationSubType, OperationType
from aws_durable_execution_sdk_python.lambda_service import OperationAction as A

ASSUMPTIONS = ASSUMPTIONS_COMMON + ASSUMPTIONS_INV + [
    "json inside serdes.py / execution.py is the opaque model vk/jsonmodel.py; the LENGTH of a serialized text is a solver-chosen int; with ensure_ascii "
    "(json's default) text length == byte length, with ensure_ascii=False a text of n characters may take up to 4n bytes (UTF-8)",
    "replays use the real json with really oversized (non-ASCII) strings",
]
FUNCS = ["operation.child.ChildOperationExecutor.check_result_status/execute", "concurrency.executor.ConcurrentExecutor.replay/_execute_item_in_child_context",
         "concurrency.models.BatchResult.from_items/_get_completion_reason", "execution.durable_execution.wrapper (LAMBDA_RESPONSE_SIZE_LIMIT branches)",
         "operation.map.MapSummaryGenerator", "operation.parallel.ParallelSummaryGenerator"]

LIMIT = CH.CHECKPOINT_SIZE_LIMIT
RLIMIT = X.LAMBDA_RESPONSE_SIZE_LIMIT

_SIZE = {"n": 10, "ascii_only_seen": True}

if h.MODE == "sx":
    from vk.jsonmodel import JsonModel, JTok

    class SizedJson(JsonModel):
        @staticmethod
        def dumps(o, separators=None, **kw):
            t = JsonModel.dumps(o, separators=separators, **kw)
            fn = _SIZE.get("fn")
            t.size = fn(o) if fn is not None else _SIZE["n"]
            if kw.get("ensure_ascii") is False:
                _SIZE["ascii_only_seen"] = False
            return t

    SER.json = SizedJson
    X.json = SizedJson


def big_value(chars):
    """replay mode: a value whose real JSON text has about `chars` characters"""
    return "x" * max(0, chars - 2)


@h.lemma(timeout=200, funcs=FUNCS, reach=("end", "large", "small", "replayed"),
         bounds="child context (absent record): serialized result length any int >= 0 (threshold 262144), summary generator present/absent; then a replay against the recorded SUCCEED")
def child_size_threshold(size: int, with_summary: bool, sub: int):
    """
    pre: 0 <= size and 0 <= sub < 3
    post: True
    """
    subs = [OperationSubType.RUN_IN_CHILD_CONTEXT, OperationSubType.MAP, OperationSubType.PARALLEL_BRANCH]
    _SIZE["n"] = size
    value = ["v", 1] if h.MODE == "sx" else ["x" * max(0, size - 6), 1]
    cfg = ChildConfig(sub_type=subs[sub], summary_generator=(lambda r: "SUMMARY") if with_summary else None)
    calls = []

    def body():
        calls.append(1)
        return value

    tr = ops.run_child(None, body, cfg)
    ups = tr.state.updates_for()
    u = ups[-1][0]
    h.check(tr.kind == "ret" and u.action is A.SUCCEED and ups[-1][1])
    real_size = size if h.MODE == "sx" else len(SER.serialize(None, value, "o", "a"))
    if real_size > LIMIT:
        h.reach("large")
        h.check(u.context_options is not None and u.context_options.replay_children is True, "an oversized result must be recorded with ReplayChildren")
        h.check(u.payload == ("SUMMARY" if with_summary else ""), "only the summary (or nothing) may be recorded for an oversized result")
    else:
        h.reach("small")
        h.check(u.context_options is not None and u.context_options.replay_children is False, "a result within the limit must not use ReplayChildren")
        h.check(SER.deserialize(None, u.payload, "o", "a") == value, "a result within the limit must be recorded in full")
    # replay against what the backend now holds (wire form drops an empty payload)
    rec = tr.state.ops[OID]
    rec = Operation(rec.operation_id, rec.operation_type, rec.status, parent_id=rec.parent_id, name=rec.name, sub_type=rec.sub_type,
                    context_details=ContextDetails(rec.context_details.replay_children, rec.context_details.result or None, None))
    n_before = len(calls)
    tr2 = ops.run_child(rec, body, cfg)
    h.reach("replayed")
    h.check(tr2.kind == "ret" and tr2.value == value, "replay must deliver an equal result")
    h.check(not tr2.state.log, "replay must not send new records")
    h.check((len(calls) - n_before) == (1 if real_size > LIMIT else 0), "body re-traversed iff the result was replaced by a summary")
    h.end()


STATS = [ST.SUCCEEDED, ST.FAILED, ST.STARTED, None]


@h.lemma(timeout=300, funcs=FUNCS, reach=("end", "mixed"),
         bounds="map or parallel with 3 branches, each branch record SUCCEEDED(result i*10) / FAILED(error) / STARTED / absent; completion config: min_successful None/1..3, "
                "tolerated_failure_count None/0..2; real ConcurrentExecutor.replay")
def batch_replay(s0: int, s1: int, s2: int, is_map: bool, ms: int, tf: int):
    """
    pre: 0 <= s0 < 4 and 0 <= s1 < 4 and 0 <= s2 < 4 and 0 <= ms <= 3 and 0 <= tf <= 3
    post: True
    """
    from harness.C08 import H, mk_ctx
    from aws_durable_execution_sdk_python.operation.map import MapExecutor
    from aws_durable_execution_sdk_python.operation.parallel import ParallelExecutor

    cc = CompletionConfig(min_successful=ms if ms > 0 else None, tolerated_failure_count=(tf - 1) if tf > 0 else None)
    st = FakeState(None)
    root = mk_ctx(st)
    exec_ctx = root.create_child_context("mapop")
    stats = [STATS[s0], STATS[s1], STATS[s2]]
    ran = []

    def branch(ctx, *a):
        ran.append(1)
        return -1

    for i, s in enumerate(stats):
        if s is None:
            continue
        bid = H("mapop", i)
        st.ops[bid] = Operation(bid, OperationType.CONTEXT, s, parent_id="mapop", name=f"b{i}",
                                sub_type=OperationSubType.MAP_ITERATION if is_map else OperationSubType.PARALLEL_BRANCH,
                                context_details=ContextDetails(False, SER.serialize(None, i * 10, "o", "a") if s is ST.SUCCEEDED else None,
                                                               ErrorObject(f"e{i}", "T", None, None) if s is ST.FAILED else None))
    if is_map:
        ex = MapExecutor.from_items([1, 2, 3], branch, MapConfig(completion_config=cc))
    else:
        ex = ParallelExecutor.from_callables([branch, branch, branch], ParallelConfig(completion_config=cc))
    res = ex.replay(st, exec_ctx)
    h.check(not ran, "replay ran a branch body")
    h.check(not [u for (u, _s) in st.log if u is not None], "replay sent a record")
    h.check(len(res.all) == 3 and [it.index for it in res.all] == [0, 1, 2], "one item per input, in input order")
    exp_items = []
    for i, s in enumerate(stats):
        it = res.all[i]
        if s is ST.SUCCEEDED:
            h.check(it.status is BatchItemStatus.SUCCEEDED and it.result == i * 10 and it.error is None, "recorded branch result must be reported")
        elif s is ST.FAILED:
            h.check(it.status is BatchItemStatus.FAILED and it.error is not None and it.error.message == f"e{i}", "recorded branch error must be reported")
        else:
            h.check(it.status is BatchItemStatus.STARTED and it.result is None and it.error is None, "unfinished branch must be reported as started")
        exp_items.append(it)
    if len({x for x in stats}) >= 3:
        h.reach("mixed")
    want = BatchResult.from_items(exp_items, cc)
    h.check(res.completion_reason is want.completion_reason, "replayed completion reason differs from the one derived from the same items and the configured policy")
    h.end()


UCHAR = "\U0001D11E"   # 4 bytes in UTF-8, 12 characters when escaped by json's default ensure_ascii


@h.lemma(timeout=300, funcs=FUNCS, reach=("end", "over", "within", "error_over"),
         bounds="final result text of ANY length around LAMBDA_RESPONSE_SIZE_LIMIT (6 MiB - 50); ASCII or non-ASCII content; handler returns it or raises an error whose message is oversized")
def final_result_limit(size: int, as_error: bool):
    """
    pre: 0 <= size
    post: True
    """
    _SIZE["n"] = size
    _SIZE["ascii_only_seen"] = True
    if h.MODE == "sx":
        value = ["R", 1]
    else:
        value = UCHAR * size   # `size` characters of text when not escaped (4 bytes each), 12 characters each when escaped

    def handler(event, ctx):
        ctx.step(lambda s: 1, name="S")
        if as_error:
            raise ValueError(value if h.MODE != "sx" else "BIGERR")
        return value

    be = Backend()
    res = run_execution(handler, be, max_invocations=1)
    out = res.outputs[0]
    h.check(isinstance(out, dict), "wrapper did not return a status")
    # byte size of what would be put on the wire inline
    if h.MODE == "sx":
        nbytes_max = size if _SIZE["ascii_only_seen"] else size * 4
    else:
        import json
        inline = out.get("Result") if not as_error else json.dumps(out)
        nbytes_max = len((inline or "").encode("utf-8"))
    if not as_error:
        h.check(out["Status"] == "SUCCEEDED")
        if out.get("Result") == "":
            h.reach("over")
            h.check(be.exec_result is not None and be.exec_result.action is A.SUCCEED and be.stream[-1][1] is be.exec_result,
                    "an empty payload is only allowed after the execution's result was recorded (last update)")
            if h.MODE == "sx":
                h.check(size > RLIMIT, "result within the limit must be returned inline")
        else:
            h.reach("within")
            h.check(be.exec_result is None)
            h.check(nbytes_max <= RLIMIT, "a result larger than the Lambda response limit (in bytes) was returned inline instead of being recorded")
    else:
        h.check(out["Status"] == "FAILED")
        if "Error" not in out:
            h.reach("error_over")
            h.check(be.exec_result is not None and be.exec_result.action is A.FAIL and be.stream[-1][1] is be.exec_result,
                    "an oversized error must be recorded as the execution's result before FAILED is reported without payload")
            if h.MODE == "sx":
                h.check(size > RLIMIT)
        else:
            h.check(be.exec_result is None)
            h.check(nbytes_max <= RLIMIT, "an error larger than the Lambda response limit was returned inline")
    h.end()


class BigMsg(str):
    """(symbolic execution only) an ASCII error message whose LENGTH is a solver-chosen int"""

    def __new__(cls, n):
        o = str.__new__(cls, "M")
        o.n = n
        return o

    def __len__(self):
        return self.n

    def __str__(self):
        return self


def _failed_overhead():
    """characters of the FAILED response around the message text (real json, concrete)"""
    import json
    return len(json.dumps({"Status": "FAILED", "Error": {"ErrorType": "ValueError", "ErrorMessage": ""}}))


@h.lemma(timeout=300, funcs=FUNCS, reach=("end", "error_over", "error_within"),
         bounds="the handler raises ValueError with an ASCII message of ANY length; the FAILED response is the message plus a fixed envelope (its real length, computed "
                "with the real json); over the Lambda response limit <=> EXECUTION FAIL recorded (last update) and FAILED returned without payload")
def final_error_limit(mlen: int):
    """
    pre: 0 <= mlen
    post: True
    """
    _final_error(mlen)


@h.lemma(timeout=300, funcs=FUNCS, reach=("end", "error_over", "error_within"),
         bounds="as final_error_limit with CONCRETE message lengths at the boundaries (0, limit-envelope-1, limit-envelope, limit-envelope+1, limit-1, limit, limit+1): "
                "stays decidable when the code under test measures the message itself (len() of a str realises a symbolic length)")
def final_error_limit_boundaries(k: int):
    """
    pre: 0 <= k < 7
    post: True
    """
    oh = _failed_overhead()
    lens = [0, RLIMIT - oh - 1, RLIMIT - oh, RLIMIT - oh + 1, RLIMIT - 1, RLIMIT, RLIMIT + 1]
    for i in range(7):
        if k == i:
            _final_error(lens[i])
            return


def _final_error(mlen):
    over_head = _failed_overhead()
    if h.MODE == "sx":
        msg = BigMsg(mlen)

        def size_of(o):
            if isinstance(o, dict) and isinstance(o.get("Error"), dict) and isinstance(o["Error"].get("ErrorMessage"), BigMsg):
                return o["Error"]["ErrorMessage"].n + over_head
            return 10
        _SIZE["fn"] = size_of
    else:
        msg = "x" * mlen

    def handler(event, ctx):
        raise ValueError(msg)

    try:
        be = Backend()
        res = run_execution(handler, be, max_invocations=1)
    finally:
        _SIZE["fn"] = None
    out = res.outputs[0]
    h.check(isinstance(out, dict) and out["Status"] == "FAILED", "a user exception must give FAILED")
    if h.MODE == "sx":
        inline_size = mlen + over_head
    else:
        import json
        inline_size = len(json.dumps(out).encode("utf-8")) if "Error" in out else mlen + over_head
    if "Error" not in out:
        h.reach("error_over")
        h.check(be.exec_result is not None and be.exec_result.action is A.FAIL and be.stream[-1][1] is be.exec_result,
                "an oversized error must be recorded as the execution's result before FAILED is reported without payload")
        h.check(mlen + over_head > RLIMIT, "an error within the limit must be returned inline")
    else:
        h.reach("error_within")
        h.check(be.exec_result is None, "an inline error must not also be recorded")
        h.check(inline_size <= RLIMIT, "a FAILED response larger than the Lambda response limit was returned inline instead of being recorded")
    h.end()



@h.lemma(timeout=400, funcs=FUNCS, reach=("end", "replayed"),
         bounds="composed world: child{step P; step Q} with a result of any size; wait; replay: zero step re-executions, zero new records for the child and its steps, equal value")
def large_child_replay(size: int, with_summary: bool, a: int):
    """
    pre: 0 <= size
    post: True
    """
    _SIZE["n"] = 10
    runs = {"P": 0, "Q": 0}
    seen = []

    def handler(event, ctx):
        def child(c2):
            def p(s):
                runs["P"] += 1
                return a

            def q(s):
                runs["Q"] += 1
                return (a,)
            x = c2.step(p, name="P")
            y = c2.step(q, name="Q")
            _SIZE["n"] = size          # the child's own result text has the symbolic size
            return [x, y, "tail"] if h.MODE == "sx" else [x, y, big_value(size)]
        cfg = ChildConfig(summary_generator=(lambda r: "S")) if with_summary else None
        v = ctx.run_in_child_context(child, name="CH", config=cfg)
        _SIZE["n"] = 10
        seen.append(v)
        ctx.wait(Duration(5), name="W")
        return 1

    be = Backend()
    res = run_execution(handler, be, max_invocations=3)
    h.check(res.final is not None and res.final["Status"] == "SUCCEEDED" and len(res.outputs) == 2)
    h.reach("replayed")
    h.check(runs == {"P": 1, "Q": 1}, "a completed step was re-executed while rebuilding an oversized context result")
    h.check(len(seen) == 2 and seen[0] == seen[1] and type(seen[0][1]) is tuple, "replay must rebuild an equal result")
    second = [u for (i, u) in be.stream if i == 2 and u.name in ("CH", "P", "Q")]
    h.check(not second, "replay sent new records for the oversized context or its steps")
    h.end()


@h.lemma(timeout=300, funcs=FUNCS, reach=("end", "large", "replayed"),
         bounds="one map item / parallel branch (real _execute_item_in_child_context, default MapConfig/ParallelConfig as built by map_handler/parallel_handler) "
                "whose own result text has any length around the checkpoint limit; then the branch is replayed")
def branch_size_threshold(size: int, is_map: bool):
    """
    pre: 0 <= size
    post: True
    """
    from harness.C08 import H, mk_ctx
    from aws_durable_execution_sdk_python.operation.map import MapExecutor, MapSummaryGenerator
    from aws_durable_execution_sdk_python.operation.parallel import ParallelExecutor, ParallelSummaryGenerator

    st = FakeState(None)
    exec_ctx = mk_ctx(st).create_child_context("mapop")
    value = ["item", 1] if h.MODE == "sx" else ["x" * max(0, size - 6), 1]
    runs = []

    def branch(ctx, *a):
        runs.append(1)
        _SIZE["n"] = size
        return value

    if is_map:
        ex = MapExecutor.from_items([1], branch, MapConfig(summary_generator=MapSummaryGenerator()))
    else:
        ex = ParallelExecutor.from_callables([branch], ParallelConfig(summary_generator=ParallelSummaryGenerator()))
    _SIZE["n"] = size
    r = ex._execute_item_in_child_context(exec_ctx, ex.executables[0])
    h.check(r == value, "the branch must deliver its result")
    bid = H("mapop", 0)
    ups = [u for (u, _s) in st.log if u is not None and u.operation_id == bid]
    real_size = size if h.MODE == "sx" else len(SER.serialize(None, value, "o", "a"))
    h.check(ups[-1].action is A.SUCCEED, "an oversized item result must not fail the item")
    if real_size > LIMIT:
        h.reach("large")
        h.check(ups[-1].context_options.replay_children is True)
    else:
        h.check(ups[-1].context_options.replay_children is False)
    # replay the item against the recorded record (wire form drops '')
    rec = st.ops[bid]
    st.ops[bid] = Operation(rec.operation_id, rec.operation_type, rec.status, parent_id=rec.parent_id, name=rec.name, sub_type=rec.sub_type,
                            context_details=ContextDetails(rec.context_details.replay_children, rec.context_details.result or None, None))
    n_log = len(st.log)
    r2 = ex._execute_item_in_child_context(exec_ctx, ex.executables[0])
    h.reach("replayed")
    h.check(r2 == value and len(st.log) == n_log, "replayed item must deliver an equal result without new records")
    h.end()
