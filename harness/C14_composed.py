"""C14 - composed-world lemmas (kept in a separate module: importing the composed world replaces json / create_checkpoint module-wide)."""
from __future__ import annotations

from vk import h
from harness.inv import ASSUMPTIONS_INV

ASSUMPTIONS = ASSUMPTIONS_INV

# callbacks / invokes across invocations with external completion in between (composed world; lemma shared with C02)
from harness import C02 as _C02  # noqa: E402

composed_callback_invoke = _C02.t_condition_callback_invoke_page1
composed_callback_invoke.__module__ = __name__
composed_wrapped_callback_invoke = _C02.t_wrapped_suspenders_page1   # callback / invoke STARTs whose response spans two pages (id read back after pagination)
composed_wrapped_callback_invoke.__module__ = __name__
