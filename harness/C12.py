"""C12 - step retries: attempts counted exactly, bounded, durably scheduled.

L1 step_retry_protocol : real StepOperationExecutor.process over an ARBITRARY reachable step record
   (absent | STARTED/PENDING/READY/SUCCEEDED/FAILED x attempt a>=0 x payload/error/timestamp options),
   both semantics, user function succeeds/fails, strategy stub returns a symbolic (retry?, delay>=0).
L2 strategy_cutoff      : real create_retry_strategy(cfg) with symbolic max_attempts m and attempt n:
   retry => n < m.  With L1 (strategy sees a+1) and the backend contract (attempt grows by one per
   RETRY) this bounds the recorded retries by m-1 (induction over invocations, stated not solved).
L3 delay_kernel (qz)    : the delay expression of retries.py/waits.py/config.py translated from the AST
   to z3 (reals), exponent unrolled for n<=N: 1 <= d <= max(1,max_delay) and backoff/jitter shape.
"""
from __future__ import annotations

from vk import h
from harness.common import ASSUMPTIONS_COMMON, FUTURE_DT, NOW, OID, PAST_DT, PAYLOAD_VALUES, STEP_STATUSES, ST
from harness.steps import STEP_FUNCS, Boom, make_record, run_step
from aws_durable_execution_sdk_python.exceptions import CallableRuntimeError, StepInterruptedError
from aws_durable_execution_sdk_python.lambda_service import OperationAction as A

ASSUMPTIONS = ASSUMPTIONS_COMMON + [
    "retry strategy in L1 is a stub returning an arbitrary (should_retry, delay>=0) and recording its arguments",
    "L3: exact reals stand in for IEEE doubles in the delay kernel; random.random() is an arbitrary real in [0,1)",
]

NSTAT = len(STEP_STATUSES)


def oracle(rec, a, amo, fails, retry, delay, ts_idx, has_details, tr):
    """The C12 oracle over one process() of the real step executor (spec, derived from the property statement)."""
    status = rec.status if rec else None
    st = tr.state
    acts = st.actions()
    ups = st.updates_for()

    # the strategy is consulted at most once and always with completed attempts + 1
    h.check(len(tr.strategy_calls) <= 1, "strategy consulted more than once in one attempt")
    for (_e, n) in tr.strategy_calls:
        h.check(n == a + 1, "retry strategy must see attempts made so far (= recorded attempt + 1)")
    h.check(len(tr.calls) <= 1, "step function entered twice in one process()")

    if status is ST.SUCCEEDED or status is ST.FAILED:
        h.check(not tr.calls and not ups and not tr.strategy_calls, "completed step touched again")
    if status is ST.FAILED:
        h.check(tr.kind == "raise" and isinstance(tr.exc, CallableRuntimeError), "failed step must raise the recorded error")
    if status is ST.PENDING:
        h.reach("pending")
        h.check(not tr.calls, "PENDING step (retry not due) must not be attempted")
        h.check(not ups and not tr.strategy_calls, "PENDING step must not write")
        h.check(tr.kind == "suspend", "PENDING step must suspend")
        want = [None, NOW, FUTURE_DT.timestamp()][ts_idx] if has_details else None
        h.check(tr.ts == want, "suspension must last until the recorded next-attempt time")

    if A.RETRY in acts:
        h.reach("retry")
        i = acts.index(A.RETRY)
        u, sync = ups[i]
        h.check(len(tr.strategy_calls) == 1 and retry, "RETRY without a retry decision")
        h.check(sync, "RETRY must be a synchronous checkpoint")
        h.check(u.step_options is not None and u.step_options.next_attempt_delay_seconds == (delay if delay >= 1 else 1),
                "RETRY delay must be max(decision delay, 1)")
        h.check(u.step_options.next_attempt_delay_seconds >= 1, "RETRY delay below one second")
        h.check(i == len(acts) - 1, "nothing may follow RETRY in the same attempt")
        h.check(u.error is not None, "RETRY must carry the error")
        h.check(tr.kind == "suspend" and tr.ts == NOW + (delay if delay >= 1 else 1), "RETRY must be followed by a timed suspension of the recorded delay")
        h.check(st.ops[OID].status is ST.PENDING and st.ops[OID].step_details.attempt == a + 1, "backend attempt count")
    if tr.kind == "suspend":
        h.check(status is ST.PENDING or (len(acts) > 0 and acts[-1] is A.RETRY), "suspension without PENDING record or accepted RETRY")

    if tr.strategy_calls and not retry:
        h.reach("fail")
        h.check(len(acts) > 0 and acts[-1] is A.FAIL and ups[-1][1], "declined retry must record FAIL synchronously as the last update")
        h.check(ups[-1][0].error is not None)
        h.check(tr.kind == "raise", "declined retry must raise")
        if tr.calls:
            h.check(isinstance(tr.exc, CallableRuntimeError) and tr.exc.message == "boom" and tr.exc.error_type == "Boom",
                    "final failure must carry the step's error")
        else:
            h.reach("interrupted")
            h.check(isinstance(tr.exc, StepInterruptedError), "interrupted at-most-once step must raise StepInterruptedError")
        h.check(st.ops[OID].status is ST.FAILED)
    if tr.strategy_calls:
        # consulted only for a real failure of this attempt or an interrupted at-most-once attempt
        h.check((len(tr.calls) == 1 and fails) or (status is ST.STARTED and amo and not tr.calls), "strategy consulted without a failure")
    if tr.calls and fails:
        h.check(len(tr.strategy_calls) == 1, "a failing attempt must consult the strategy")
    if tr.calls and not fails:
        h.check(tr.kind == "ret" and tr.value == 5 and len(acts) > 0 and acts[-1] is A.SUCCEED and ups[-1][1],
                "success must be recorded synchronously, then returned")
        h.check(not tr.strategy_calls)
    # the function is (re-)attempted only when no retry is pending and the step is not finished
    if tr.calls:
        h.check(status in (None, ST.READY, ST.STARTED), "attempted in a status that forbids it")


_B = ("one process() call of the real step executor; attempt any int >= 0; delay any int >= 0; both semantics; function "
      "succeeds or raises; strategy stub returns arbitrary (retry?, delay); ")


@h.lemma(timeout=90, funcs=STEP_FUNCS, reach=("end", "retry", "fail"), bounds=_B + "record absent")
def step_absent(amo: bool, fails: bool, retry: bool, delay: int):
    """
    pre: 0 <= delay
    post: True
    """
    tr = run_step(None, amo, fails, retry, delay)
    oracle(None, 0, amo, fails, retry, delay, 0, True, tr)
    h.check(len(tr.calls) == 1, "a new step must be attempted")
    h.end()


@h.lemma(timeout=120, funcs=STEP_FUNCS, reach=("end", "retry", "fail", "interrupted"),
         bounds=_B + "record STARTED or READY with/without details, error and payload options")
def step_started_ready(ready: bool, attempt: int, has_details: bool, has_err: bool, payload_idx: int, amo: bool, fails: bool,
                       retry: bool, delay: int):
    """
    pre: 0 <= attempt
    pre: -1 <= payload_idx < 2
    pre: 0 <= delay
    post: True
    """
    rec = make_record(True, 2 if ready else 0, attempt, payload_idx, has_err, 0, has_details)
    tr = run_step(rec, amo, fails, retry, delay)
    oracle(rec, attempt if has_details else 0, amo, fails, retry, delay, 0, has_details, tr)
    h.end()


@h.lemma(timeout=90, funcs=STEP_FUNCS, reach=("end", "pending"),
         bounds=_B + "record PENDING, next-attempt timestamp None/past/future, details present/absent")
def step_pending(attempt: int, ts_idx: int, has_details: bool, has_err: bool, amo: bool, fails: bool, retry: bool, delay: int):
    """
    pre: 0 <= attempt
    pre: 0 <= ts_idx < 3
    pre: 0 <= delay
    post: True
    """
    rec = make_record(True, 1, attempt, -1, has_err, ts_idx, has_details)
    tr = run_step(rec, amo, fails, retry, delay)
    oracle(rec, attempt if has_details else 0, amo, fails, retry, delay, ts_idx, has_details, tr)
    h.end()


@h.lemma(timeout=90, funcs=STEP_FUNCS, reach=("end",),
         bounds=_B + "record SUCCEEDED (payload None or one of 4 encodings) or FAILED (error present/absent)")
def step_terminal(failed: bool, attempt: int, payload_idx: int, has_err: bool, has_details: bool, amo: bool, fails: bool,
                  retry: bool, delay: int):
    """
    pre: 0 <= attempt
    pre: -1 <= payload_idx < 4
    pre: 0 <= delay
    post: True
    """
    rec = make_record(True, 4 if failed else 3, attempt, payload_idx, has_err, 0, has_details)
    tr = run_step(rec, amo, fails, retry, delay)
    oracle(rec, attempt if has_details else 0, amo, fails, retry, delay, 0, has_details, tr)
    if not failed:
        want = None if (payload_idx < 0 or not has_details) else PAYLOAD_VALUES[payload_idx]
        h.check(tr.kind == "ret" and tr.value == want and type(tr.value) is type(want), "recorded result must be returned")
    h.end()


class _IntMath:
    @staticmethod
    def ceil(x):
        if isinstance(x, int):
            return x
        raise AssertionError("non-int reached the ceil stub")


@h.lemma(timeout=90, funcs=["retries.create_retry_strategy.retry_strategy (cut-off and filters)"], reach=("end", "retry", "noretry"),
         bounds="max_attempts m any int, attempts_made n in 1..8, initial/max delay ints in 0..1000, rate 1, jitter NONE; message filter on/off")
def strategy_cutoff(m: int, n: int, init: int, mx: int, use_filter: bool, msg_matches: bool):
    """
    pre: 1 <= n <= 8
    pre: 0 <= init <= 1000 and 0 <= mx <= 1000
    post: True
    """
    from aws_durable_execution_sdk_python.config import Duration, JitterStrategy
    import aws_durable_execution_sdk_python.retries as RT
    from aws_durable_execution_sdk_python.retries import RetryStrategyConfig, create_retry_strategy

    RT.math = _IntMath  # math.ceil is C code and realises its argument; all operands are ints in this lemma

    cfg = RetryStrategyConfig(max_attempts=m, initial_delay=Duration(init), max_delay=Duration(mx), backoff_rate=1,
                              jitter_strategy=JitterStrategy.NONE,
                              retryable_errors=["needle"] if use_filter else None)
    strat = create_retry_strategy(cfg)
    err = ValueError("has needle inside" if msg_matches else "plain")
    d = strat(err, n)
    if d.should_retry:
        h.reach("retry")
        h.check(n < m, "retry granted at or beyond max_attempts")
        h.check((not use_filter) or msg_matches, "retry granted for an error the filter excludes")
        h.check(d.delay_seconds >= 1, "delay below one second")
        h.check(d.delay_seconds <= (mx if mx >= 1 else 1), "delay above max delay")
    else:
        h.reach("noretry")
        h.check(n >= m or (use_filter and not msg_matches), "retry declined although attempts remain and the error is retryable")
        h.check(d.delay_seconds == 0)
    h.end()


# ------------------------------------------------------------------------------------------------ delay kernel (direct z3 query from the AST)
def _delay_queries(factory, inner_name, label):
    """Translate `base_delay / delay_with_jitter / final_delay` of the packaged strategy `factory` (retries.create_retry_strategy or
    waits.create_wait_strategy) and JitterStrategy.apply_jitter from their ASTs and compare with the reference formula."""
    import ast
    import z3
    from vk import py2smt as P
    from aws_durable_execution_sdk_python.config import JitterStrategy

    import inspect
    outer = P.fn_ast(factory)
    inner = [n for n in ast.walk(outer) if isinstance(n, ast.FunctionDef) and n.name == inner_name][0]
    module = inspect.getmodule(factory)

    def assignments(fdef, depth=0):
        """ordered (name, value expression) pairs of a function body; a call to a helper function of the same module is inlined (its assignments, then its
        return expression under the assigned name), so it does not matter whether the delay computation sits in the closure or in a helper"""
        out = []
        for st in fdef.body:
            if isinstance(st, ast.Assign) and len(st.targets) == 1 and isinstance(st.targets[0], ast.Name):
                name, val = st.targets[0].id, st.value
            elif isinstance(st, ast.AnnAssign) and isinstance(st.target, ast.Name) and st.value is not None:
                name, val = st.target.id, st.value
            else:
                continue
            helper = getattr(module, val.func.id, None) if (isinstance(val, ast.Call) and isinstance(val.func, ast.Name)) else None
            if inspect.isfunction(helper) and inspect.getmodule(helper) is module and depth < 2:
                hdef = P.fn_ast(helper)
                out += assignments(hdef, depth + 1)
                rets = [x for x in hdef.body if isinstance(x, ast.Return)]
                if len(rets) == 1 and rets[0].value is not None:
                    out.append((name, rets[0].value))
                    continue
            out.append((name, val))
        return out

    seq = assignments(inner)
    # the delay is whatever is handed to  <Decision>.retry(Duration(seconds=X)) / .wait(Duration(seconds=X)) / Duration(X) / Duration.from_seconds(X)
    delay_expr = None
    for st in ast.walk(inner):
        if isinstance(st, ast.Return) and isinstance(st.value, ast.Call) and isinstance(st.value.func, ast.Attribute) and st.value.func.attr in ("retry", "wait") and st.value.args:
            dur = st.value.args[0]
            if isinstance(dur, ast.Call):
                kw = [k.value for k in dur.keywords if k.arg == "seconds"]
                delay_expr = kw[0] if kw else (dur.args[0] if dur.args else None)
    if delay_expr is None:
        raise P.Untranslatable(f"{label}: no `return <Decision>.retry/wait(Duration(seconds=...))` found in the strategy closure")
    seq.append(("__delay__", delay_expr))
    jit = P.fn_ast(JitterStrategy.apply_jitter)
    match = [s for s in jit.body if isinstance(s, ast.Match)][0]

    def jitter_body(mode):
        """the return expression of the case selected for `mode`"""
        for case in match.cases:
            pat = case.pattern
            if isinstance(pat, ast.MatchValue) and isinstance(pat.value, ast.Attribute) and pat.value.attr == mode:
                return case.body[-1].value
            if isinstance(pat, ast.MatchAs) and pat.pattern is None:
                default = case.body[-1].value
        return default

    init, mx = z3.Ints("init mx")
    r = z3.Real("r")
    results = []
    queries = 0
    rates = [(1, "1"), (1.5, "3/2"), (2, "2"), (2.0, "2"), (3, "3")]
    N = 10 if h.THOROUGH else 6
    for mode in ("NONE", "FULL", "HALF"):
        for rate, rate_q in rates:
            for n in range(1, N + 1):
                side = []

                def intr(tr, node, mode=mode, rate_q=rate_q, n=n, side=side):
                    if isinstance(node, ast.Attribute):
                        if node.attr == "initial_delay_seconds":
                            return ("int", init)
                        if node.attr == "max_delay_seconds":
                            return ("int", mx)
                        if node.attr == "backoff_rate":
                            return ("real", z3.RealVal(rate_q))
                    if isinstance(node, ast.Name) and node.id == "attempts_made":
                        return ("const", n)
                    if isinstance(node, ast.BinOp) and isinstance(node.op, ast.Pow):
                        base = tr.expr(node.left)
                        ex = tr.expr(node.right)
                        if ex[0] == "int":
                            ex = ("const", z3.simplify(ex[1]).as_long())
                        if not (ex[0] == "const" and isinstance(ex[1], int) and ex[1] >= 0):
                            raise P.Untranslatable("exponent is not a concrete non-negative int")
                        acc = z3.RealVal(1)
                        for _ in range(ex[1]):
                            acc = acc * P.to_real(base)
                        return ("real", z3.simplify(acc))
                    if isinstance(node, ast.Call) and isinstance(node.func, ast.Attribute):
                        if node.func.attr == "random":
                            return ("real", r)
                        if node.func.attr == "ceil":
                            x = P.to_real(tr.expr(node.args[0]))
                            k = tr.fresh("ceil", z3.IntSort())
                            side.append(z3.And(z3.ToReal(k) - 1 < x, x <= z3.ToReal(k)))
                            return ("int", k)
                        if node.func.attr == "apply_jitter":
                            delay = tr.expr(node.args[0])
                            sub = P.Tr({jit.args.args[1].arg: delay}, lambda t2, nd: intr(t2, nd), "real")
                            sub.n = tr.n + 100
                            out = sub.expr(jitter_body(mode))
                            tr.n = sub.n
                            return out
                    return None

                tr = P.Tr({}, intr, "real")
                for name, val in seq:
                    try:
                        tr.env[name] = tr.expr(val)
                    except P.Untranslatable:
                        tr.env.pop(name, None)      # not part of the delay computation (e.g. the retryable-error filters)
                if "__delay__" not in tr.env:
                    raise P.Untranslatable(f"{label}: the delay expression could not be translated")
                d = P.to_int(tr.env["__delay__"])
                # reference: capped backoff, then jitter, then ceil, then at least 1
                powr = z3.RealVal(1)
                for _ in range(n - 1):
                    powr = powr * z3.RealVal(rate_q)
                raw = z3.ToReal(init) * powr
                capped = z3.If(raw < z3.ToReal(mx), raw, z3.ToReal(mx))
                jit_ref = {"NONE": capped, "FULL": r * capped, "HALF": capped / 2 + r * (capped / 2)}[mode]
                kref = z3.Int("kref")
                ref_side = z3.And(z3.ToReal(kref) - 1 < jit_ref, jit_ref <= z3.ToReal(kref))
                dref = z3.If(kref > 1, kref, z3.IntVal(1))
                s = z3.Solver()
                s.set("timeout", 20000)
                s.add(init >= 0, mx >= 0, r >= 0, r < 1, ref_side, *side)
                s.add(z3.Or(d != dref, d < 1, d > z3.If(mx > 1, mx, z3.IntVal(1))))
                res = str(s.check())
                queries += 1
                if res == "sat":
                    m = s.model()
                    vals = dict(init=m.eval(init, True).as_long(), mx=m.eval(mx, True).as_long(), r=str(m.eval(r, True)), mode=mode, rate=rate, n=n,
                                code=m.eval(d, True).as_long(), reference=m.eval(dref, True).as_long())
                    return queries, ("sat", vals)
                if res != "unsat":
                    return queries, ("unknown", dict(mode=mode, rate=rate, n=n))
    # vacuity guard: with a deliberately wrong reference (cap applied AFTER the jitter) the same encoding must be refutable
    g = z3.Solver()
    g.set("timeout", 20000)
    gi, gm = z3.Ints("gi gm")
    gr = z3.Real("gr")
    g.add(gi >= 0, gm >= 0, gr >= 0, gr < 1, z3.If(z3.ToReal(gi) * 8 < z3.ToReal(gm), z3.ToReal(gi) * 8, z3.ToReal(gm)) * gr
          != z3.If(z3.ToReal(gi) * 8 * gr < z3.ToReal(gm), z3.ToReal(gi) * 8 * gr, z3.ToReal(gm)))
    if str(g.check()) != "sat":
        return queries, ("unknown", dict(guard="vacuity guard failed"))
    return queries + 1, ("unsat", None)


def _replay_delay(factory_name, vals):
    """run the real strategy with random.random patched to the model's r; returns (code delay, reference delay)"""
    import math
    import random
    from fractions import Fraction
    from unittest.mock import patch
    from aws_durable_execution_sdk_python.config import Duration, JitterStrategy

    rr = float(Fraction(vals["r"].replace("?", ""))) if "/" in vals["r"] or vals["r"].replace(".", "").isdigit() else float(vals["r"].replace("?", ""))
    mode = JitterStrategy[vals["mode"]]
    with patch.object(random, "random", lambda: rr):
        if factory_name == "retry":
            from aws_durable_execution_sdk_python.retries import RetryStrategyConfig, create_retry_strategy
            st = create_retry_strategy(RetryStrategyConfig(max_attempts=vals["n"] + 5, initial_delay=Duration(vals["init"]), max_delay=Duration(vals["mx"]),
                                                           backoff_rate=vals["rate"], jitter_strategy=mode))
            got = st(ValueError("x"), vals["n"]).delay_seconds
        else:
            from aws_durable_execution_sdk_python.waits import WaitStrategyConfig, create_wait_strategy
            st = create_wait_strategy(WaitStrategyConfig(should_continue_polling=lambda s: True, max_attempts=vals["n"] + 5, initial_delay=Duration(vals["init"]),
                                                         max_delay=Duration(vals["mx"]), backoff_rate=vals["rate"], jitter_strategy=mode))
            got = st(None, vals["n"]).delay_seconds
    capped = min(vals["init"] * vals["rate"] ** (vals["n"] - 1), vals["mx"])
    j = {"NONE": capped, "FULL": rr * capped, "HALF": capped / 2 + rr * (capped / 2)}[vals["mode"]]
    return got, max(1, math.ceil(j))


def _kernel_lemma(factory_name):
    import aws_durable_execution_sdk_python.retries as RT
    import aws_durable_execution_sdk_python.waits as WT

    factory, inner = (RT.create_retry_strategy, "retry_strategy") if factory_name == "retry" else (WT.create_wait_strategy, "wait_strategy")
    q, (res, vals) = _delay_queries(factory, inner, factory_name)
    if res == "unsat":
        return {"verdict": "CONFIRMED", "queries": q, "detail": f"unsat for 3 jitter modes x 5 rates x n: delay == max(1, ceil(jitter(min(init*rate^(n-1), max)))) and 1 <= delay <= max(1, max_delay)"}
    if res == "unknown":
        return {"verdict": "UNKNOWN", "queries": q, "detail": "solver timeout at " + str(vals)}
    got, ref = _replay_delay(factory_name, vals)
    return {"verdict": "REFUTED", "queries": q, "reproduced": got != ref, "call": f"delay_kernel_{factory_name}()  # {vals}",
            "detail": f"{factory_name} strategy delay {got} differs from the configured backoff/jitter formula {ref} for {vals}"}


@h.lemma(timeout=900, thorough_timeout=2400, kind="qz", funcs=["retries.create_retry_strategy.retry_strategy (delay expression)", "config.JitterStrategy.apply_jitter"],
         bounds="initial/max delay any int >= 0, backoff rate in {1, 1.5, 2, 2.0, 3}, attempt n in 1..6 (10 thorough, exponent unrolled), jitter NONE/FULL/HALF with random() "
                "an arbitrary real in [0,1); exact reals stand in for doubles; ceil as an integer k with k-1 < x <= k")
def delay_kernel_retry():
    return _kernel_lemma("retry")


@h.lemma(timeout=900, thorough_timeout=2400, kind="qz", funcs=["waits.create_wait_strategy.wait_strategy (delay expression)", "config.JitterStrategy.apply_jitter"],
         bounds="as delay_kernel_retry, for the packaged wait strategy")
def delay_kernel_wait():
    return _kernel_lemma("wait")
