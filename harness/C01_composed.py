"""C01 - composed-world lemmas (kept in a separate module: importing the composed world replaces json / create_checkpoint module-wide)."""
from __future__ import annotations

from vk import h
from harness.inv import ASSUMPTIONS_INV

ASSUMPTIONS = ASSUMPTIONS_INV

# ---------------------------------------------------------------- composed runs: real wrapper + state + checkpoint thread over several invocations
from harness import C02 as _C02  # noqa: E402
from harness.inv import Backend, run_execution  # noqa: E402
from harness.common import TERMINAL  # noqa: E402


def _mk_composed(psel):
    def lem(a: int, ci: int, cc: int, after: bool, fail_b: bool):
        """
        pre: 0 <= ci <= 3 and 1 <= cc <= 4
        post: True
        """
        from aws_durable_execution_sdk_python.config import Duration
        from aws_durable_execution_sdk_python.exceptions import CallableRuntimeError

        be = _C02.variant_backend(ci, cc, after, psel)
        entries = []          # (step name, was the step already terminal at the backend when its function was entered?)
        seen = {}

        def fn(name, value, fail=False):
            def body(sc):
                op = [o for o in be.ops.values() if o.name == name]
                entries.append((name, bool(op) and op[0].status in TERMINAL))
                if fail:
                    raise ValueError("b-failed")
                return value
            return body

        def handler(event, ctx):
            x = ctx.step(fn("A", a), name="A")
            try:
                y = ctx.step(fn("B", a + 1, fail_b), name="B", config=_C02.NO_RETRY)
            except CallableRuntimeError as e:
                y = ("err", e.message)
            ctx.wait(Duration(3), name="W")

            def child(c2):
                return c2.step(fn("C", (a, "c")), name="C")
            z = ctx.run_in_child_context(child, name="CH")
            seen.setdefault("vals", []).append((x, y, z))
            return 1

        res = run_execution(handler, be, max_invocations=6)
        h.check(res.deadlock is None and res.final is not None and res.final["Status"] == "SUCCEEDED", "execution did not finish")
        if any(o == ("crash",) for o in res.outputs):
            h.reach("crashed")
        h.check(not [e for e in entries if e[1]], "a step function ran although the backend already held a terminal record for that step")
        for name in ("A", "B", "C"):
            n = sum(1 for e in entries if e[0] == name)
            h.check(n >= 1 and n <= 2, "a step ran more often than once plus one crash-induced repetition")
            if ci == 0:
                h.check(n == 1, "without a crash every step function runs exactly once over the whole execution")
        vals = seen["vals"]
        h.check(all(v == vals[0] for v in vals) and vals[0][0] == a and vals[0][2] == (a, "c"), "a later invocation observed a different outcome for a completed operation")
        h.check(vals[0][1] == (("err", "b-failed") if fail_b else a + 1))
        h.end()

    lem.__name__ = lem.__qualname__ = f"composed_no_reexecution_page{psel}"
    return h.lemma(timeout=600, thorough_timeout=1800, funcs=_C02.FUNCS, reach=("end", "crashed"), tier="quick" if psel == 1 else "thorough",
                   bounds="composed world: A=step; B=step (ok or failing, no retry, caught); wait; child{C=step}; process crash at invocation 0(none)..3 x API call 1..4 x "
                          f"before/after apply; history page size {_C02.PAGE[psel]}; <= 6 invocations; symbolic step value")(lem)


for _p in range(3):
    _f = _mk_composed(_p)
    globals()[_f.__name__] = _f
del _f, _p


# ---------------------------------------------------------------- a branch that is resumed IN-PROCESS re-traverses its completed operations
from harness import exec_world as XW  # noqa: E402


def _mk_inprocess(psel):
    def lem(a: int, first: int, nested: bool):
        """
        pre: 0 <= first < 2
        post: True
        """
        from aws_durable_execution_sdk_python.config import Duration

        be = Backend(page_size=_C02.PAGE_SIZES[psel], empty_pages=(psel == 1))
        runs = {"X": 0, "Y": 0, "Z": 0}
        seen = []

        def handler(event, ctx):
            XW.World(choices=[first], late=[1])   # branch 1 is long-running user code: it ends only when nothing else can happen

            def branch_a(c):
                def x(s):
                    runs["X"] += 1
                    return a

                def y(s):
                    runs["Y"] += 1
                    return (a, "y")
                if nested:
                    vx = c.run_in_child_context(lambda c2: c2.step(x, name="X"), name="inner")
                else:
                    vx = c.step(x, name="X")
                c.wait(Duration(1), name="W")      # parks the branch; the timer resumes it in the same invocation
                vy = c.step(y, name="Y")
                return [vx, vy]

            def branch_b(c):
                def z(s):
                    runs["Z"] += 1
                    return "z"
                return c.step(z, name="Z")

            r = ctx.parallel([branch_a, branch_b], name="PAR")
            seen.append([it.result for it in r.all])
            return 1

        # the backend fires a due timer as soon as it is asked again (the resubmission's refresh checkpoint)
        orig = be.checkpoint

        def checkpoint(arn, token, updates, client_token):
            if not updates:
                be.advance()
            return orig(arn, token, updates, client_token)

        be.checkpoint = checkpoint
        res = run_execution(handler, be, max_invocations=3)
        h.check(res.deadlock is None and res.final is not None and res.final["Status"] == "SUCCEEDED", "execution did not finish")
        if len(res.outputs) == 1:
            h.reach("single_invocation")
        h.check(runs == {"X": 1, "Y": 1, "Z": 1}, "a completed step ran again when its branch was resumed in the same invocation")
        h.check(seen[-1] == [[a, (a, "y")], "z"], "branch results")
        h.end()

    lem.__name__ = lem.__qualname__ = f"composed_inprocess_resume_page{psel}"
    return h.lemma(timeout=600, thorough_timeout=1800, funcs=_C02.FUNCS + ["concurrency.executor.*"], reach=("end", "single_invocation"),
                   tier="quick" if psel == 1 else "thorough",
                   bounds="composed world + thread-pool model: parallel([A: step X (optionally inside a nested context); wait 1s; step Y] , [B: long-running step Z]); the "
                          f"timer resumes A in the same invocation; checkpoint responses page size {_C02.PAGE[psel]}; which branch starts first is solver-chosen")(lem)


for _p in range(3):
    _f = _mk_inprocess(_p)
    globals()[_f.__name__] = _f
del _f, _p
