"""Composed world: the REAL durable_execution wrapper + DurableContext + operation executors + ExecutionState, with the
background checkpoint thread as a coroutine (harness/batcher.py lowering) and a stateful model of the durable backend.

  * X.ThreadPoolExecutor -> VPool: `submit(checkpoint_batches_forever)` registers the consumer coroutine, `submit(user_fn)` runs the
    handler on the interpreter thread.  ExecutionState.create_checkpoint is driven through its lowered coroutine: at each of its
    preemption points the consumer may run a solver-chosen number of steps; when the caller blocks on its completion event the
    consumer runs until the event is set.  A caller whose event can never be set is a Deadlock ("blocks forever").
  * Backend: operation table + lifecycle automaton (rejects invalid histories = C11 oracle) + token chain + optional pagination
    + fault injection (API error / process crash before or after applying a call) + timers and external completions between
    invocations.
  * run_execution(): re-invokes the handler until SUCCEEDED/FAILED, as the durable service does.
Sequential workflows only (one user thread); map/parallel live in harness/exec_world.py.
"""
from __future__ import annotations

import dataclasses

from vk import h
from harness import batcher  # installs stubs + lowering at import
from harness.common import FUTURE_DT, NOW, NOW_DT, ST, TERMINAL, install_clock

import aws_durable_execution_sdk_python.execution as X
import aws_durable_execution_sdk_python.state as S
from aws_durable_execution_sdk_python.execution import (
    DurableExecutionInvocationInputWithClient, InitialExecutionState, durable_execution,
)
from aws_durable_execution_sdk_python.lambda_service import (
    CallbackDetails, ChainedInvokeDetails, CheckpointOutput, CheckpointUpdatedExecutionState, ContextDetails, ErrorObject,
    ExecutionDetails, Operation, OperationAction, OperationType, StateOutput, StepDetails, WaitDetails,
)
from aws_durable_execution_sdk_python.state import ExecutionState
from vk import sched

A = OperationAction

ASSUMPTIONS_INV = batcher.ASSUMPTIONS_BATCHER + [
    "one user thread per invocation (sequential workflow): ThreadPoolExecutor(2) of the wrapper is replaced by a pool that runs the handler on the interpreter "
    "thread and the checkpoint thread as a coroutine; the consumer runs (a) a solver-chosen number of steps right after the caller's i-th queue.put and "
    "(b) until the awaited completion event is set when the caller blocks",
    "backend model (harness/inv.Backend): START->STARTED (callback START returns an id), SUCCEED->SUCCEEDED(result), FAIL->FAILED(error), RETRY->PENDING(attempt+1, "
    "next attempt time), CONTEXT SUCCEED keeps ReplayChildren; between invocations due timers fire (PENDING->READY, WAIT STARTED->SUCCEEDED) and awaited "
    "callbacks / invokes complete with scripted outcomes; each API call returns a fresh token and the touched records (optionally paginated)",
    "the backend validates every update against the lifecycle automaton and the token chain; a process crash is a BaseException raised in the service client "
    "before or after the call was applied, or inside a user function",
]

EXEC_ID = "exec-op"


class Crash(BaseException):
    """The Lambda process dies here."""


class ApiError(Exception):
    """A (non-boto) error raised by the service client."""


class InvalidHistory(BaseException):
    """raised by the backend model; BaseException so that the SDK's `except Exception` around the API call cannot absorb it"""


class Backend:
    def __init__(self, input_payload=None, page_size=None, empty_pages=False):
        self.advance_after_crash = True
        self.empty_first_from = 2        # first invocation number whose payload has an EMPTY first page (when empty_pages is on)
        self.empty_pages = empty_pages   # every continuation is preceded by an EMPTY page that still carries a marker
        if input_payload is None:
            input_payload = X.json.dumps({})   # real json text, or the json model's token under symbolic execution
        self.ops: dict[str, Operation] = {}
        self.order: list[str] = []
        self.stream: list = []          # every accepted update, in order, across invocations: (invocation, update)
        self.token_n = 0
        self.invocation = 0
        self.calls = 0                  # API calls in the current invocation
        self.total_calls = 0
        self.fail_call = None           # (invocation, call index) -> raise ApiError instead of applying
        self.fail_exc = None
        self.crash_call = None          # (invocation, call index, "before"|"after")
        self.page_size = page_size      # pagination of checkpoint responses and of the invocation payload
        self.pages: dict[str, list] = {}
        self.callback_outcome = {}      # op name -> ("SUCCEEDED", payload) | ("FAILED", msg) | ...
        self.invoke_outcome = {}
        self.exec_result = None
        self.input_payload = input_payload
        self.applied_at_return = None
        self.changed: list[str] = []    # operations the backend changed on its own since its last response

    # ---------------------------------------------------------------- lifecycle automaton (C11 oracle)
    def _validate(self, u):
        old = self.ops.get(u.operation_id)
        status = old.status if old else None
        if u.operation_type is OperationType.EXECUTION:
            if self.exec_result is not None:
                raise InvalidHistory("execution-level result sent twice")
            return
        if self.exec_result is not None:
            raise InvalidHistory("update after the execution-level result record")
        if status in TERMINAL:
            raise InvalidHistory(f"update {u.action.value} for an operation the backend holds as terminal")
        if u.action is A.START:
            if status is ST.STARTED:
                raise InvalidHistory("second START for the same attempt")
            if status is ST.PENDING:
                raise InvalidHistory("START while a retry is pending")
        elif u.action in (A.RETRY, A.SUCCEED, A.FAIL):
            if status is not ST.STARTED:
                raise InvalidHistory(f"{u.action.value} without a START for this attempt")
        else:
            raise InvalidHistory("unexpected action")
        if u.parent_id and u.parent_id not in self.ops:
            raise InvalidHistory("a child's update precedes its parent context's START")
        if old is not None and (old.parent_id != u.parent_id or old.operation_type is not u.operation_type):
            raise InvalidHistory("parent link or type changed between updates of one operation")

    def _apply(self, u):
        self._validate(u)
        self.stream.append((self.invocation, u))
        if u.operation_type is OperationType.EXECUTION:
            self.exec_result = u
            return None
        old = self.ops.get(u.operation_id)
        att, res = 0, None
        if old is not None and old.step_details is not None:
            att, res = old.step_details.attempt, old.step_details.result
        common = dict(operation_id=u.operation_id, operation_type=u.operation_type, parent_id=u.parent_id, name=u.name, sub_type=u.sub_type)
        status = {A.START: ST.STARTED, A.SUCCEED: ST.SUCCEEDED, A.FAIL: ST.FAILED, A.RETRY: ST.PENDING}[u.action]
        t = u.operation_type
        if t is OperationType.STEP:
            nts, err = None, None
            if u.action is A.RETRY:
                att, nts, res, err = att + 1, FUTURE_DT, u.payload, u.error
            elif u.action is A.SUCCEED:
                res = u.payload
            elif u.action is A.FAIL:
                err = u.error
            op = Operation(status=status, step_details=StepDetails(att, nts, res, err), **common)
        elif t is OperationType.WAIT:
            op = Operation(status=status, wait_details=WaitDetails(FUTURE_DT), **common)
        elif t is OperationType.CALLBACK:
            op = Operation(status=status, callback_details=CallbackDetails(callback_id="cb:" + (u.name or u.operation_id[:6])), **common)
        elif t is OperationType.CHAINED_INVOKE:
            op = Operation(status=status, chained_invoke_details=ChainedInvokeDetails(), **common)
        else:
            rc = bool(u.context_options and u.context_options.replay_children)
            op = Operation(status=status, context_details=ContextDetails(rc, u.payload, u.error), **common)
        if u.operation_id not in self.ops:
            self.order.append(u.operation_id)
        self.ops[u.operation_id] = op
        return op

    # ---------------------------------------------------------------- wire layer (the backend speaks boto-style dicts)
    def checkpoint_durable_execution(self, DurableExecutionArn, CheckpointToken, Updates, **kw):  # noqa: N803
        from aws_durable_execution_sdk_python.lambda_service import OperationUpdate
        # the backend's own decoding of the wire form (independent of OperationUpdate.from_dict): only documented keys
        ups = [wire_to_update(d) for d in Updates]
        out = self.checkpoint(DurableExecutionArn, CheckpointToken, ups, None)
        return {"CheckpointToken": out.checkpoint_token,
                "NewExecutionState": {"Operations": [op_to_wire(o) for o in out.new_execution_state.operations],
                                      "NextMarker": out.new_execution_state.next_marker}}

    def get_durable_execution_state(self, DurableExecutionArn, CheckpointToken, Marker, MaxItems=1000):  # noqa: N803
        out = self.get_execution_state(DurableExecutionArn, CheckpointToken, Marker, MaxItems)
        return {"Operations": [op_to_wire(o) for o in out.operations], "NextMarker": out.next_marker}

    # ---------------------------------------------------------------- model-level client
    def checkpoint(self, durable_execution_arn, checkpoint_token, updates, client_token):
        self.calls += 1
        self.total_calls += 1
        key = (self.invocation, self.calls)
        if checkpoint_token != f"t{self.token_n}":
            raise InvalidHistory("API call did not carry the token returned by the previous call")
        if self.crash_call is not None and self.crash_call[:2] == key and self.crash_call[2] == "before":
            raise Crash()
        if self.fail_call == key:
            raise (self.fail_exc or ApiError("api down"))
        touched = [self._apply(u) for u in updates]
        touched = [o for o in touched if o is not None]
        # operations the backend itself changed since the last response (timers fired, callbacks answered) are reported too
        for oid in self.changed:
            if all(o.operation_id != oid for o in touched):
                touched.append(self.ops[oid])
        self.changed = []
        if self.crash_call is not None and self.crash_call[:2] == key and self.crash_call[2] == "after":
            raise Crash()
        self.token_n += 1
        tok = f"t{self.token_n}"
        if self.page_size is not None and len(touched) > self.page_size:
            first, rest = touched[:self.page_size], touched[self.page_size:]
            marker = f"pg{self.total_calls}"
            self.pages[marker] = rest
            return CheckpointOutput(tok, CheckpointUpdatedExecutionState(first, marker))
        return CheckpointOutput(tok, CheckpointUpdatedExecutionState(touched, None))

    def get_execution_state(self, durable_execution_arn, checkpoint_token, next_marker, max_items=1000):
        if self.empty_pages and not next_marker.endswith("~"):
            self.pages[next_marker + "~"] = self.pages[next_marker]
            return StateOutput([], next_marker + "~")
        rest = self.pages[next_marker]
        if self.page_size is not None and len(rest) > self.page_size:
            marker = next_marker + "+"
            self.pages[marker] = rest[self.page_size:]
            return StateOutput(rest[:self.page_size], marker)
        return StateOutput(rest, None)

    # ---------------------------------------------------------------- between invocations
    def advance(self):
        """timers fire, awaited callbacks and invokes complete"""
        before = dict(self.ops)
        self._advance()
        self.changed += [oid for oid in self.order if self.ops[oid] is not before[oid] and oid not in self.changed]

    def _advance(self):
        for oid, op in list(self.ops.items()):
            if op.operation_type is OperationType.STEP and op.status is ST.PENDING:
                self.ops[oid] = dataclasses.replace(op, status=ST.READY, step_details=dataclasses.replace(op.step_details, next_attempt_timestamp=None))
            elif op.operation_type is OperationType.WAIT and op.status is ST.STARTED:
                self.ops[oid] = dataclasses.replace(op, status=ST.SUCCEEDED)
            elif op.operation_type is OperationType.CALLBACK and op.status is ST.STARTED and op.name in self.callback_outcome:
                kind, val = self.callback_outcome[op.name]
                cd = CallbackDetails(op.callback_details.callback_id, val if kind == "SUCCEEDED" else None,
                                     None if kind == "SUCCEEDED" else ErrorObject(val, "CallbackErr", None, None))
                self.ops[oid] = dataclasses.replace(op, status=ST[kind], callback_details=cd)
            elif op.operation_type is OperationType.CHAINED_INVOKE and op.status is ST.STARTED and op.name in self.invoke_outcome:
                kind, val = self.invoke_outcome[op.name]
                d = ChainedInvokeDetails(val if kind == "SUCCEEDED" else None, None if kind == "SUCCEEDED" else ErrorObject(val, "InvokeErr", None, None))
                self.ops[oid] = dataclasses.replace(op, status=ST[kind], chained_invoke_details=d)

    def invocation_event(self):
        self.invocation += 1
        self.calls = 0
        self.changed = []
        execop = Operation(EXEC_ID, OperationType.EXECUTION, ST.STARTED, execution_details=ExecutionDetails(self.input_payload))
        history = [execop] + [self.ops[i] for i in self.order]
        marker = ""
        if self.empty_pages and self.invocation >= self.empty_first_from:
            # "Due to payload size limitations we may have an empty operations list" (execution.py): the whole history, EXECUTION record included,
            # is behind the marker of an EMPTY first page
            marker = f"inv{self.invocation}"
            self.pages[marker] = history
            history = []
        elif self.page_size is not None and len(history) > self.page_size:
            marker = f"inv{self.invocation}"
            self.pages[marker] = history[self.page_size:]
            history = history[:self.page_size]
        from aws_durable_execution_sdk_python.lambda_service import LambdaClient
        state = InitialExecutionState.from_dict({"Operations": [op_to_wire(o) for o in history], "NextMarker": marker})
        return DurableExecutionInvocationInputWithClient("arn:exec", f"t{self.token_n}", state, LambdaClient(client=self))


def err_to_wire(e):
    d = {}
    if e.message is not None:
        d["ErrorMessage"] = e.message
    if e.type is not None:
        d["ErrorType"] = e.type
    if e.data is not None:
        d["ErrorData"] = e.data
    if e.stack_trace is not None:
        d["StackTrace"] = e.stack_trace
    return d


def wire_err(d):
    # API shape: ErrorMessage / ErrorType / ErrorData are strings, StackTrace a list of strings (botocore validates parameters before sending)
    for k in ("ErrorMessage", "ErrorType", "ErrorData"):
        if d.get(k) is not None and not isinstance(d[k], str):
            raise InvalidHistory(f"request rejected: Error.{k} is not a string")
    if d.get("StackTrace") is not None and not (isinstance(d["StackTrace"], list) and all(isinstance(x, str) for x in d["StackTrace"])):
        raise InvalidHistory("request rejected: Error.StackTrace is not a list of strings")
    return ErrorObject(d.get("ErrorMessage"), d.get("ErrorType"), d.get("ErrorData"), d.get("StackTrace"))


class WireUpdate:
    """what the backend understood from one wire update"""

    def __init__(self, d):
        from aws_durable_execution_sdk_python.lambda_service import ContextOptions, OperationSubType
        self.operation_id = d["Id"]
        self.operation_type = OperationType(d["Type"])
        self.action = OperationAction(d["Action"])
        self.parent_id = d.get("ParentId")
        self.name = d.get("Name")
        self.sub_type = OperationSubType(d["SubType"]) if d.get("SubType") else None
        self.payload = d.get("Payload")
        self.error = wire_err(d["Error"]) if "Error" in d else None
        co = d.get("ContextOptions")
        self.context_options = ContextOptions(bool(co.get("ReplayChildren", False))) if co is not None else None
        self.step_options = d.get("StepOptions")
        self.wait_options = d.get("WaitOptions")
        self.callback_options = d.get("CallbackOptions")
        self.chained_invoke_options = d.get("ChainedInvokeOptions")
        self.wire = d


def wire_to_update(d):
    return WireUpdate(d)


def op_to_wire(o: Operation):
    """the backend's own encoding of an operation record (documented wire keys)"""
    d = {"Id": o.operation_id, "Type": o.operation_type.value, "Status": o.status.value}
    if o.parent_id is not None:
        d["ParentId"] = o.parent_id
    if o.name is not None:
        d["Name"] = o.name
    if o.sub_type is not None:
        d["SubType"] = o.sub_type.value
    if o.execution_details is not None:
        d["ExecutionDetails"] = {"InputPayload": o.execution_details.input_payload}
    if o.context_details is not None:
        c = {"ReplayChildren": o.context_details.replay_children}
        if o.context_details.result is not None:
            c["Result"] = o.context_details.result
        if o.context_details.error is not None:
            c["Error"] = err_to_wire(o.context_details.error)
        d["ContextDetails"] = c
    if o.step_details is not None:
        c = {"Attempt": o.step_details.attempt}
        if o.step_details.next_attempt_timestamp is not None:
            c["NextAttemptTimestamp"] = o.step_details.next_attempt_timestamp
        if o.step_details.result is not None:
            c["Result"] = o.step_details.result
        if o.step_details.error is not None:
            c["Error"] = err_to_wire(o.step_details.error)
        d["StepDetails"] = c
    if o.wait_details is not None:
        d["WaitDetails"] = {"ScheduledEndTimestamp": o.wait_details.scheduled_end_timestamp}
    if o.callback_details is not None:
        c = {"CallbackId": o.callback_details.callback_id}
        if o.callback_details.result is not None:
            c["Result"] = o.callback_details.result
        if o.callback_details.error is not None:
            c["Error"] = err_to_wire(o.callback_details.error)
        d["CallbackDetails"] = c
    if o.chained_invoke_details is not None:
        c = {}
        if o.chained_invoke_details.result is not None:
            c["Result"] = o.chained_invoke_details.result
        if o.chained_invoke_details.error is not None:
            c["Error"] = err_to_wire(o.chained_invoke_details.error)
        d["ChainedInvokeDetails"] = c
    return d


# ------------------------------------------------------------------------------------------------ runtime glue
class VFuture:
    def __init__(self):
        self.val = None
        self.exc = None

    def result(self, timeout=None):
        if self.exc is not None:
            raise self.exc
        return self.val


class Runtime:
    """per-invocation: consumer coroutine + schedule"""

    current = None

    def __init__(self, ksteps=(), race=False):
        self.race = race             # a waiter woken by Event.set runs IMMEDIATELY (before the setter's next statement)
        self.blocked_gen = None
        self.blocked_ev = None
        self.early = None
        self.after_put = False
        self.consumer = None
        self.consumer_done = False
        self.consumer_parked = False
        self.state = None
        self.ksteps = list(ksteps)   # solver-chosen consumer steps at the caller's preemption points
        self.ki = 0
        self.steps = 0

    def consumer_step(self):
        if self.consumer is None or self.consumer_done:
            return False
        self.steps += 1
        if self.steps > 2000:
            raise sched.StepLimit("step limit")
        try:
            msg = self.consumer.send(None)
        except StopIteration:
            self.consumer_done = True
            return False
        self.consumer_parked = bool(msg and msg[0] == "idle" and self.state._checkpoint_queue.empty())
        return True

    def run_consumer(self, k):
        for _ in range(k):
            # a timed get that finds nothing simply times out (the user thread may be slower than the batching window)
            if not self.consumer_step():
                break

    def drive(self, gen):
        """run a lowered create_checkpoint to completion"""
        while True:
            try:
                msg = gen.send(None)
            except StopIteration as e:
                return e.value
            if msg[0] == "blocked":
                ev = msg[1]
                idle_rounds = 0
                self.blocked_gen, self.blocked_ev, self.early = gen, getattr(ev, "_event", ev), None
                while not ev.is_set():
                    progressed = self.consumer_step()
                    if not progressed:
                        if ev.is_set():
                            break   # the consumer's last segment set the event before it exited
                        raise sched.Deadlock("caller blocked forever: the checkpoint thread has exited and the completion event was never set")
                    if self.consumer_parked:
                        idle_rounds += 1
                        if idle_rounds > 3:
                            raise sched.Deadlock("caller blocked forever: the checkpoint thread idles with an empty queue and the event is not set")
                    else:
                        idle_rounds = 0
                self.blocked_gen = self.blocked_ev = None
                if self.early is not None:
                    kind, val = self.early
                    self.early = None
                    if kind == "raise":
                        raise val
                    return val
            else:
                # run-ahead of the checkpoint thread: right after the caller's i-th put the consumer runs ksteps[i] steps
                if self.after_put:
                    self.after_put = False
                    k = self.ksteps[self.ki] if self.ki < len(self.ksteps) else 0
                    self.ki += 1
                    if k:
                        self.run_consumer(k)
                if msg[0] == "pt" and msg[1] == "_checkpoint_queue.put":
                    self.after_put = True


    def on_event_set(self, ev):
        """HookedEvent callback: with `race`, the blocked caller runs right now, inside the setter"""
        if not self.race or self.blocked_gen is None or self.blocked_ev is not ev:
            return
        gen, self.blocked_gen = self.blocked_gen, None
        try:
            while True:
                msg = gen.send(None)
                if msg and msg[0] == "blocked":
                    # blocked again on something else: give up the race simulation for this wait
                    self.early = ("raise", sched.Deadlock("woken caller blocked again"))
                    return
        except StopIteration as e:
            self.early = ("ret", e.value)
        except BaseException as e:  # noqa: BLE001
            if type(e).__module__.startswith("aws_durable_execution_sdk_python") or isinstance(e, Exception):
                self.early = ("raise", e)
            else:
                raise


class _RuntimeWorldAdapter:
    """lets harness.batcher.HookedEvent report to the current Runtime"""

    @staticmethod
    def on_event_set(ev):
        if Runtime.current is not None:
            Runtime.current.on_event_set(ev)


class VPool:
    def __init__(self, *a, **k):
        pass

    def __enter__(self):
        return self

    def __exit__(self, *a):
        # pool shutdown joins the threads: the consumer runs until it sees the stop flag
        rt = Runtime.current
        n = 0
        while rt is not None and rt.consumer_step():
            n += 1
            if n > 200:
                raise sched.StepLimit("checkpoint thread does not stop after close()")
        return False

    def submit(self, fn, *args):
        f = VFuture()
        rt = Runtime.current
        if getattr(fn, "__name__", "") == "checkpoint_batches_forever":
            rt.state = fn.__self__
            rt.consumer = rt.state._co_checkpoint_batches_forever()
            return f
        try:
            f.val = fn(*args)
        except Crash:
            raise
        except BaseException as e:  # noqa: BLE001
            if type(e).__module__.startswith("aws_durable_execution_sdk_python") or isinstance(e, Exception):
                f.exc = e
            else:
                raise
        return f


def _driven_create_checkpoint(self, operation_update=None, is_sync=True):
    return Runtime.current.drive(self._co_create_checkpoint(operation_update, is_sync))


_installed = False


def install():
    global _installed
    if _installed:
        return
    _installed = True
    batcher.install()
    install_clock()
    X.ThreadPoolExecutor = VPool
    ExecutionState.create_checkpoint = _driven_create_checkpoint
    # real size accounting is irrelevant here (sizes are decided in C05): every update has size 1
    ExecutionState._calculate_operation_size = staticmethod(lambda q: 0 if q.operation_update is None else 1)
    S.time = sched.Clock()
    sched.VQueue.clock = S.time
    sched.VQueue.join_hook = lambda q: Runtime.current is not None and Runtime.current.consumer_step() and not Runtime.current.consumer_parked
    batcher.HookedEvent.world = _RuntimeWorldAdapter

    import datetime as _dtm
    import aws_durable_execution_sdk_python.lambda_service as LS

    class _DTC(_dtm.datetime):
        @classmethod
        def now(cls, tz=None):
            return NOW_DT

    class _DTMod:
        datetime = _DTC
        UTC = _dtm.UTC
        timedelta = _dtm.timedelta

    LS.datetime = _DTMod


install()


class Result:
    def __init__(self):
        self.outputs = []      # per invocation: dict | ("raise", exc) | ("crash",)
        self.final = None
        self.deadlock = None


def run_execution(handler_fn, backend: Backend, max_invocations=6, ksteps=(), on_invocation=None, race=False):
    """Invoke until SUCCEEDED/FAILED (or max_invocations)."""
    res = Result()
    wrapped = durable_execution(handler_fn)
    for _ in range(max_invocations):
        ev = backend.invocation_event()
        Runtime.current = Runtime(ksteps, race)
        if on_invocation is not None:
            on_invocation(backend.invocation)
        try:
            out = wrapped(ev, None)
        except Crash:
            res.outputs.append(("crash",))
            if backend.advance_after_crash:
                backend.advance()    # (False: Lambda retries the crashed invocation BEFORE any timer fires or external event arrives)
            continue
        except (sched.Deadlock, sched.StepLimit) as d:
            res.deadlock = d
            res.outputs.append(("deadlock", d))
            return res
        except InvalidHistory as ih:
            raise AssertionError("invalid operation history: " + str(ih)) from None
        except Exception as e:  # noqa: BLE001  the wrapper raised: Lambda retries the invocation
            res.outputs.append(("raise", e))
            backend.advance()
            continue
        res.outputs.append(out)
        if out.get("Status") in ("SUCCEEDED", "FAILED"):
            res.final = out
            return res
        backend.advance()
    return res
