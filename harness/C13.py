"""C13 - wait_for_condition threads its state through polls and stops when told to.

L1 wfc_poll   : one process() of the real WaitForConditionOperationExecutor from an ARBITRARY reachable record
                (absent | STARTED | READY | PENDING | SUCCEEDED | FAILED, attempt a >= 0, payload options), with a
                check stub that records (state, attempt) and a strategy stub returning a symbolic (continue?, delay).
L2 wfc_chain  : two polls chained through the backend contract (RETRY -> PENDING -> timer -> READY): poll n+1
                receives exactly the state poll n returned, restored by the CONFIGURED serdes (default, JsonSerDes,
                custom), and the poll number grows by one.
L3 wait_strategy_kernel : real create_wait_strategy: stop iff predicate false or attempts >= max; delay in [1, max] (ints).
"""
from __future__ import annotations

from vk import h
from harness.common import ASSUMPTIONS_COMMON, FUTURE_DT, NOW, OID, ST, Backend, FakeState
from harness import ops
from harness.steps import make_record
import aws_durable_execution_sdk_python.serdes as SER
from aws_durable_execution_sdk_python.config import Duration
from aws_durable_execution_sdk_python.exceptions import CallableRuntimeError
from aws_durable_execution_sdk_python.lambda_service import OperationAction as A
from aws_durable_execution_sdk_python.lambda_service import Operation, OperationSubType, OperationType, StepDetails
from aws_durable_execution_sdk_python.serdes import JsonSerDes, SerDes
from aws_durable_execution_sdk_python.waits import WaitForConditionDecision

if h.MODE == "sx":
    from vk.jsonmodel import JsonModel

    SER.json = JsonModel

ASSUMPTIONS = ASSUMPTIONS_COMMON + [
    "json inside serdes.py is the opaque model vk/jsonmodel.py (replays use the real json)",
    "check function and wait strategy are stubs: the check returns a solver-chosen new state and records its arguments; the strategy returns an arbitrary (continue?, delay >= 0)",
    "timer firing is the backend contract PENDING -> READY keeping attempt and payload",
    "a custom serializer that renders a state as '' is outside the claim (payload truthiness, wait_for_condition.py)",
]


class WrapSerDes(SerDes):
    """A custom serializer whose text the default serializer cannot decode."""

    def serialize(self, value, ctx):
        return Wrapped(value)

    def deserialize(self, data, ctx):
        if not isinstance(data, Wrapped):
            raise ValueError("not my format")
        return data.value


class Wrapped:
    def __init__(self, value):
        self.value = value

    def __bool__(self):
        return True

    def __len__(self):
        return 5


def mk_serdes(kind):
    return [None, JsonSerDes(), WrapSerDes()][kind]


def same(a, b):
    if isinstance(a, (list, tuple)):
        return type(a) is type(b) and len(a) == len(b) and all(same(x, y) for x, y in zip(a, b))
    if isinstance(a, bool) or isinstance(b, bool):
        return isinstance(a, bool) and isinstance(b, bool) and a == b
    if isinstance(a, int):
        return isinstance(b, int) and a == b
    return type(a) is type(b) and a == b


def mk_state(shape, i):
    # serializer domain samples with a symbolic int inside
    return [i, [i, 1], {"n": i}, (i, "x")][shape]


def payload_for(kind, value):
    """what the configured serdes would have written for `value`"""
    sd = mk_serdes(kind)
    return SER.serialize(sd, value, OID, "arn")


@h.lemma(timeout=240, funcs=ops.WFC_FUNCS, reach=("end", "stop", "continue", "pending", "terminal", "restored"),
         bounds="one process(); record absent/STARTED/READY/PENDING/SUCCEEDED/FAILED, attempt any int>=0, payload absent or serialize(prev) for a state "
                "in {int, [int,1], {'n':int}, (int,'x')} with a symbolic int; serdes default/JsonSerDes/custom; strategy (continue?, delay any int>=0)")
def wfc_poll(exists: bool, status_idx: int, attempt: int, has_payload: bool, shape: int, prev: int, new: int, sk: int, has_details: bool,
             cont: bool, delay: int, ts_idx: int):
    """
    pre: 0 <= status_idx < 5 and 0 <= attempt and 0 <= shape < 4 and 0 <= sk < 3 and 0 <= delay and 0 <= ts_idx < 3
    pre: sk != 1 or shape < 3
    post: True
    """
    from harness.common import STEP_STATUSES, ts_choice

    prev_state = mk_state(shape, prev)
    new_state = mk_state(shape, new)
    rec = None
    if exists:
        status = STEP_STATUSES[status_idx]
        payload = payload_for(sk, prev_state) if has_payload else None
        rec = Operation(OID, OperationType.STEP, status, parent_id="parent-0", name="nm", sub_type=OperationSubType.WAIT_FOR_CONDITION,
                        step_details=StepDetails(attempt, ts_choice(ts_idx), payload, None) if has_details else None)
    status = rec.status if rec else None
    a = attempt if (rec is not None and has_details) else 0
    tr = ops.run_wfc(rec, "INIT", lambda s: new_state, lambda s, n: (
        # the decision object is built DIRECTLY (the factories are one way to build it, exercised by wfc_chain): whatever the executor guarantees about
        # a continue decision must hold for every decision value a strategy can return
        WaitForConditionDecision(should_continue=True, delay=Duration(delay)) if cont else WaitForConditionDecision(should_continue=False, delay=Duration())),
        serdes=mk_serdes(sk))
    st = tr.state
    ups = st.updates_for()
    acts = [u.action for (u, _s) in ups]

    if status in (ST.SUCCEEDED, ST.FAILED):
        h.reach("terminal")
        h.check(not tr.calls and not tr.strategy_calls and not ups, "a completed or failed condition must never be polled again")
        if status is ST.FAILED:
            h.check(tr.kind == "raise" and isinstance(tr.exc, CallableRuntimeError))
        else:
            want = prev_state if (has_payload and has_details) else None
            h.check(tr.kind == "ret" and same(tr.value, want), "recorded final state must be returned")
    elif status is ST.PENDING:
        h.reach("pending")
        h.check(not tr.calls and not ups and tr.kind == "suspend", "a poll that is not due must not run")
        want = [None, NOW, FUTURE_DT.timestamp()][ts_idx] if has_details else None
        h.check(tr.ts == want, "must wait until the recorded next poll time")
    else:
        h.check(len(tr.calls) == 1 and len(tr.strategy_calls) == 1, "exactly one poll")
        got_state, _rec = tr.calls[0]
        if status in (ST.STARTED, ST.READY) and has_payload and has_details:
            h.reach("restored")
            h.check(same(got_state, prev_state), "poll must receive exactly the state the previous poll returned (restored by the configured serdes)")
        else:
            h.check(got_state == "INIT", "first poll must receive the configured initial state")
        (s_state, s_attempt) = tr.strategy_calls[0]
        h.check(s_attempt == a + 1, "poll number must be recorded attempts + 1")
        h.check(same(s_state, new_state), "strategy must see the state the check returned")
        # START only for a condition that is not started yet, and never synchronous-blocking user code
        starts = [i for i, x in enumerate(acts) if x is A.START]
        h.check(len(starts) == (0 if status is ST.STARTED else 1), "START exactly when not yet started")
        if cont:
            h.reach("continue")
            u, sync = ups[-1]
            h.check(u.action is A.RETRY and sync, "continue must be recorded by a synchronous RETRY as the last update")
            h.check(u.step_options.next_attempt_delay_seconds == (delay if delay >= 1 else 1), "recorded delay must be max(decision delay, 1)")
            h.check(same(SER.deserialize(mk_serdes(sk), u.payload, OID, "arn"), new_state), "RETRY must carry the new state")
            h.check(tr.kind == "suspend" and tr.ts is not None, "continue must end in a timed suspension")
            h.check(st.ops[OID].status is ST.PENDING and st.ops[OID].step_details.attempt == a + 1)
        else:
            h.reach("stop")
            u, sync = ups[-1]
            h.check(u.action is A.SUCCEED and sync, "stop must be recorded by a synchronous SUCCEED as the last update")
            h.check(same(SER.deserialize(mk_serdes(sk), u.payload, OID, "arn"), new_state), "SUCCEED must carry the final state")
            h.check(tr.kind == "ret" and same(tr.value, new_state), "the call must return the last state exactly when told to stop")
        h.check(A.FAIL not in acts)
    h.end()


@h.lemma(timeout=120, funcs=ops.WFC_FUNCS, reach=("end",), bounds="check function raises: record absent/STARTED/READY, any attempt")
def wfc_check_raises(exists: bool, ready: bool, attempt: int):
    """
    pre: 0 <= attempt
    post: True
    """
    rec = make_record(exists, 2 if ready else 0, attempt, -1, False, 0, True)

    def chk(s):
        raise KeyError("chk")

    tr = ops.run_wfc(rec, 0, chk, lambda s, n: WaitForConditionDecision.stop_polling())
    ups = tr.state.updates_for()
    h.check(tr.kind == "raise", "a failing check must fail the operation")
    h.check(ups[-1][0].action is A.FAIL and ups[-1][1], "failure must be recorded synchronously before it is raised")
    h.check(not tr.strategy_calls)
    h.end()


@h.lemma(timeout=300, funcs=ops.WFC_FUNCS, reach=("end", "second_stop", "second_continue"),
         bounds="two consecutive polls chained through the backend contract (RETRY->PENDING->READY); start record absent/STARTED/READY with any attempt; states as in wfc_poll; all three serdes")
def wfc_chain(exists: bool, ready: bool, attempt: int, shape: int, s1: int, s2: int, sk: int, delay: int, stop2: bool):
    """
    pre: 0 <= attempt and 0 <= shape < 4 and 0 <= sk < 3 and 0 <= delay
    pre: sk != 1 or shape < 3
    post: True
    """
    rec = make_record(exists, 2 if ready else 0, attempt, -1, False, 0, True)
    a = attempt if exists else 0
    st1 = mk_state(shape, s1)
    st2 = mk_state(shape, s2)
    serdes = mk_serdes(sk)
    tr1 = ops.run_wfc(rec, "INIT", lambda s: st1, lambda s, n: WaitForConditionDecision.continue_waiting(Duration(delay)), serdes=serdes)
    h.check(tr1.kind == "suspend")
    pending = tr1.state.ops[OID]
    h.check(pending.status is ST.PENDING)
    # the backend fires the timer: PENDING -> READY, attempt and payload kept
    ready_rec = Operation(OID, OperationType.STEP, ST.READY, parent_id=pending.parent_id, name=pending.name, sub_type=pending.sub_type,
                          step_details=StepDetails(pending.step_details.attempt, None, pending.step_details.result, None))
    tr2 = ops.run_wfc(ready_rec, "INIT", lambda s: st2, lambda s, n: (
        WaitForConditionDecision.stop_polling() if stop2 else WaitForConditionDecision.continue_waiting(Duration(delay))), serdes=serdes)
    h.check(len(tr2.calls) == 1)
    got, _ = tr2.calls[0]
    h.check(same(got, st1), "poll n+1 must receive exactly the state poll n returned")
    h.check(tr2.strategy_calls[0][1] == a + 2, "poll number must grow by one per poll across invocations")
    if stop2:
        h.reach("second_stop")
        h.check(tr2.kind == "ret" and same(tr2.value, st2))
    else:
        h.reach("second_continue")
        h.check(tr2.kind == "suspend" and tr2.state.ops[OID].step_details.attempt == a + 2)
    h.end()


class _IntMath:
    @staticmethod
    def ceil(x):
        if isinstance(x, int):
            return x
        raise AssertionError("non-int reached the ceil stub")


@h.lemma(timeout=120, funcs=["waits.create_wait_strategy.wait_strategy"], reach=("end", "wait", "stop"),
         bounds="max_attempts any int, attempts 1..8, delays ints 0..1000, rate 1, jitter NONE (all-int arithmetic; math.ceil stubbed as identity on ints)")
def wait_strategy_kernel(m: int, n: int, init: int, mx: int, keep_polling: bool):
    """
    pre: 1 <= n <= 8
    pre: 0 <= init <= 1000 and 0 <= mx <= 1000
    post: True
    """
    import aws_durable_execution_sdk_python.waits as W
    from aws_durable_execution_sdk_python.config import JitterStrategy

    W.math = _IntMath
    cfg = W.WaitStrategyConfig(should_continue_polling=lambda s: keep_polling, max_attempts=m, initial_delay=Duration(init),
                               max_delay=Duration(mx), backoff_rate=1, jitter_strategy=JitterStrategy.NONE)
    d = W.create_wait_strategy(cfg)("state", n)
    if d.should_wait:
        h.reach("wait")
        h.check(keep_polling and n < m, "kept waiting although the predicate said stop or attempts are exhausted")
        h.check(1 <= d.delay_seconds <= (mx if mx >= 1 else 1), "delay outside [1, max]")
        h.check(d.delay_seconds == (min(init, mx) if min(init, mx) >= 1 else 1))
    else:
        h.reach("stop")
        h.check((not keep_polling) or n >= m)
    h.end()
