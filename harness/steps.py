"""Runner for the real StepOperationExecutor over a symbolic checkpoint record."""
from __future__ import annotations

from harness.common import (
    FUTURE_DT, IDENT, NOW, OID, PAST_DT, STEP_STATUSES, FakeState, Trace, err_obj, mk_logger, run, step_record, ts_choice,
)
from aws_durable_execution_sdk_python.config import Duration, StepConfig, StepSemantics
from aws_durable_execution_sdk_python.operation.step import StepOperationExecutor
from aws_durable_execution_sdk_python.retries import RetryDecision

STEP_FUNCS = ["operation.step.StepOperationExecutor.check_result_status", "operation.step.StepOperationExecutor.execute",
              "operation.step.StepOperationExecutor.retry_handler", "operation.base.OperationExecutor.process",
              "state.CheckpointedResult.*", "suspend.suspend_with_optional_resume_delay",
              "suspend.suspend_with_optional_resume_timestamp", "lambda_service.OperationUpdate.create_step_*",
              "serdes.serialize/deserialize"]


class Boom(ValueError):
    pass


def make_record(exists: bool, status_idx: int, attempt: int, payload_idx: int, has_err: bool, ts_idx: int,
                has_details: bool = True):
    if not exists:
        return None
    from harness.common import PAYLOADS
    payload = None if payload_idx < 0 else PAYLOADS[payload_idx]
    return step_record(STEP_STATUSES[status_idx], attempt, payload, err_obj(has_err, "recorded-msg", "RecordedType"),
                       ts_choice(ts_idx), has_details)


def run_step(rec, at_most_once: bool, fails: bool, retry: bool, delay: int, value=5, strategy=None, serdes=None,
             exc_factory=None):
    st = FakeState(rec)
    tr = Trace()

    def fn(ctx):
        tr.calls.append(st.ops.get(OID))
        st.events.append(("ufn",))
        if fails:
            raise (exc_factory() if exc_factory else Boom("boom"))
        return value

    def strat(err, n):
        tr.strategy_calls.append((err, n))
        st.events.append(("strategy",))
        return RetryDecision(retry, Duration(delay))

    cfg = StepConfig(retry_strategy=strategy or strat, serdes=serdes,
                     step_semantics=StepSemantics.AT_MOST_ONCE_PER_RETRY if at_most_once else StepSemantics.AT_LEAST_ONCE_PER_RETRY)
    ex = StepOperationExecutor(fn, cfg, st, IDENT, mk_logger(st))
    return run(ex.process, st, tr)
