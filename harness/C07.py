"""C07 - suspension is sound and live: PENDING only when durably parked, and never stuck.

  park_is_durable (SX, per handler): whenever a real executor leaves by suspension, the record that lets the backend wake the execution (wait/invoke/
       callback START, step/condition RETRY, or a pre-existing PENDING/STARTED record) was handed over SYNCHRONOUSLY before, and a timed suspension
       carries the recorded delay / timestamp.
  executor_suspension (executor world): real ConcurrentExecutor with branches that succeed / fail / park on a callback / park until t / succeed after a
       park / never finish, solver-chosen completion order and timer activity: execute() raises SuspendExecution only when no branch is running or
       waiting to start (every unfinished branch is parked), a timed suspension carries the EARLIEST parked timestamp, a due branch is resubmitted after
       exactly one empty synchronous checkpoint and then runs again, and execute() never blocks forever unless a branch itself never finishes
       (liveness as bounded safety: no deadlock, no livelock within the action bound).
  reaches_terminal_state (composed world, shared with C02): executions mixing steps, waits, retries, wait_for_condition, callbacks and invokes reach
       SUCCEEDED/FAILED within 6 invocations under every crash point, and no invocation blocks forever.
"""
from __future__ import annotations

from vk import h
from harness import exec_world as XW
from harness.common import ASSUMPTIONS_COMMON, NOW, OID, ST
from harness import ops
from harness.steps import STEP_FUNCS, make_record, run_step
from aws_durable_execution_sdk_python.concurrency.models import BatchItemStatus, BranchStatus
from aws_durable_execution_sdk_python.config import CompletionConfig, Duration
from aws_durable_execution_sdk_python.exceptions import SuspendExecution, TimedSuspendExecution
from aws_durable_execution_sdk_python.lambda_service import OperationAction as A
from aws_durable_execution_sdk_python.waits import WaitForConditionDecision

ASSUMPTIONS = ASSUMPTIONS_COMMON + XW.ASSUMPTIONS_EXEC + [
    "unbounded-time liveness and fairness of the real OS scheduler are outside the claim; liveness is checked as bounded safety (no deadlock / no livelock within 40 scheduling actions, <= 6 invocations)",
]
XFUNCS = ["concurrency.executor.ConcurrentExecutor.execute/_on_task_complete/should_execution_suspend", "concurrency.executor.TimerScheduler.schedule_resume/_timer_loop/shutdown",
          "concurrency.models.ExecutableWithState.*", "suspend.*", "exceptions.TimedSuspendExecution.from_delay/from_datetime"]


@h.lemma(timeout=300, funcs=STEP_FUNCS + ops.WFC_FUNCS + ops.WAIT_FUNCS + ops.INVOKE_FUNCS + ops.CALLBACK_FUNCS, reach=("end", "suspended", "timed"),
         bounds="step / wait_for_condition / wait / invoke / callback.result over absent or any reachable record, any attempt, function outcome, strategy decision, delay any int >= 0")
def park_is_durable(kind: int, exists: bool, status_idx: int, attempt: int, fails: bool, retry: bool, delay: int, amo: bool, seconds: int):
    """
    pre: 0 <= kind < 5 and 0 <= status_idx < 6 and 0 <= attempt and 0 <= delay and seconds >= 1
    post: True
    """
    from harness.common import CALLBACK_STATUSES, INVOKE_STATUSES, STEP_STATUSES, WAIT_STATUSES
    if kind == 0:
        if status_idx >= 5:
            return
        rec = make_record(exists, status_idx, attempt, 0, True, 2, True)
        tr = run_step(rec, amo, fails, retry, delay)
    elif kind == 1:
        if status_idx >= 5:
            return
        rec = make_record(exists, status_idx, attempt, 0, True, 2, True)
        tr = ops.run_wfc(rec, 0, lambda s: 1, lambda s, n: WaitForConditionDecision.continue_waiting(Duration(delay)) if retry else WaitForConditionDecision.stop_polling())
    elif kind == 2:
        if status_idx >= 2:
            return
        rec = ops.wait_record(exists, status_idx)
        tr = ops.run_wait(rec, seconds)
    elif kind == 3:
        if status_idx >= 5:
            return
        rec = ops.invoke_record(exists, status_idx, None, True)
        tr = ops.run_invoke(rec, 1, seconds)
    else:
        rec = ops.callback_record(exists, status_idx, "cb", None, True)
        tr0 = ops.run_callback_create(rec)
        tr = ops.run_callback_result(tr0.state, "cb")
    if tr.kind != "suspend":
        if kind == 2:
            # a wait that is absent or still running must park the execution (it can neither return nor fail)
            h.check(tr.kind == "ret" and exists and WAIT_STATUSES[status_idx] is ST.SUCCEEDED, "a wait that has not completed must suspend, not return or raise")
        h.end()
        return
    h.reach("suspended")
    ups = tr.state.updates_for()
    status = rec.status if rec else None
    if ups:
        u, sync = ups[-1]
        h.check(sync, "suspended although the record that wakes the execution was handed over asynchronously (it may never reach the backend)")
        h.check(u.action in (A.START, A.RETRY), "suspended after a record that does not park the operation")
        h.check(tr.state.ops[OID].status in (ST.STARTED, ST.PENDING))
    else:
        h.check(status in (ST.STARTED, ST.PENDING), "suspended without any record the backend can wake the execution from")
    if tr.ts is not None:
        h.reach("timed")
        if ups and ups[-1][0].action is A.RETRY:
            want = ups[-1][0].step_options.next_attempt_delay_seconds
            h.check(tr.ts == NOW + want or (kind == 1 and tr.ts == NOW + delay), "timed suspension must carry the recorded retry delay")
        if kind == 2:
            h.check(tr.ts == NOW + seconds, "a wait suspends for its configured duration")
    h.end()


BEH = ["ok", "fail", "park", "park_until", "ok_after_park", "never"]


def susp_check(n, is_map, tol, kinds, d0, d1, choices, eager=(), fail_refresh=False):
    delays = [9 if d0 else 5, 5 if d1 else 7, 6]   # concrete timer distances (symbolic floats do not converge); their ORDER is what matters
    beh, never = [], []
    for i, k in enumerate(kinds):
        dly = delays[i]
        if k == 0:
            beh.append(("ok", i))
        elif k == 1:
            beh.append(("fail", "boom"))
        elif k == 2:
            beh.append(("park",))
        elif k == 3:
            beh.append(("park_until", dly))
        elif k == 4:
            beh.append(("ok_after_park", i, dly))
        elif k == 6:
            beh.append(("park_until", 0))     # parks on a timer that is ALREADY due (e.g. an invoke with the default timeout 0 suspends with delay 0)
        else:
            beh.append(("ok", i))
            never.append(i)
    script = XW.Script(beh)
    cfg = CompletionConfig(tolerated_failure_count=n) if tol else CompletionConfig()
    world = XW.World(choices=choices, never=never, eager=eager)
    ex = XW.make_executor(script, is_map, cfg, None)
    st = XW.FakeState(None)
    st.fail_refresh = fail_refresh
    st.exempt_first_starts = True
    (kind, val), st = XW.run_execute(ex, world, st)
    if world.submits > n and [k for k in eager if k >= n]:
        h.reach("eager_resubmission")
    empties = [1 for (u, sync) in st.log if u is None]
    h.check(all(sync for (u, sync) in st.log if u is None), "the state refresh before resuming a branch must be a synchronous checkpoint")
    resubmitted = len(XW.VExecPool.last.all) - n
    if st.dead is None:
        # (a resumed branch must see what the backend did meanwhile - otherwise it re-parks on a timer that has already fired and nothing ever wakes it)
        h.check(len(empties) >= resubmitted, "a branch was resubmitted without a state refresh")
    statuses = [e.status for e in ex.executables_with_state]
    if st.dead is not None:
        h.reach("refresh_failed")
        if kind == "deadlock" and never:
            h.end()    # a branch's own user code runs forever: not the SDK's doing
            return
        h.check(kind != "deadlock", "the state refresh of a timer-driven resubmission failed and execute() never returns: " + str(val))
        h.check(kind == "raise" and val is st.dead, "after a failed checkpoint execute() must propagate the failure, not return or suspend")
        h.end()
        return
    if kind == "deadlock":
        h.reach("blocked")
        h.check(len(never) > 0, "execute() never returns although no branch is still running user code: " + str(val))
        h.end()
        return
    if kind == "suspend":
        h.reach("suspended")
        h.check(all(s not in (BranchStatus.RUNNING, BranchStatus.PENDING) for s in statuses),
                "PENDING reported while a branch was still running or waiting to start")
        parked = [e for e in ex.executables_with_state if e.status in (BranchStatus.SUSPENDED, BranchStatus.SUSPENDED_WITH_TIMEOUT)]
        h.check(len(parked) >= 1)
        h.check(not never, "suspended although a branch's user code was still executing")
        timed = [e.suspend_until for e in parked if e.status is BranchStatus.SUSPENDED_WITH_TIMEOUT]
        if timed:
            h.reach("timed")
            h.check(isinstance(val, TimedSuspendExecution) and val.scheduled_timestamp == min(timed), "timed suspension must carry the earliest parked timestamp")
        else:
            h.check(not isinstance(val, TimedSuspendExecution), "indefinite suspension must not carry a timestamp")
    elif kind == "ret":
        h.reach("returned")
        for i in range(n):
            if beh[i][0] == "ok_after_park" and val.all[i].status is BatchItemStatus.SUCCEEDED:
                h.reach("resumed")
                h.check(script.entries[i] == 2 and val.all[i].result == i, "a resumed branch must run again exactly once and deliver its result")
    else:
        h.check(False, "execute() raised an unexpected exception")
    h.end()


def _mk_susp(n, is_map, tol):
    def lem(b0: int, b1: int, b2: int, d0: int, d1: int, c0: int, c1: int, c2: int):
        """
        pre: 0 <= b0 < 6 and 0 <= b1 < 6 and 0 <= b2 < 6 and 0 <= d0 < 2 and 0 <= d1 < 2
        pre: 0 <= c0 < 3 and 0 <= c1 < 3 and 0 <= c2 < 3
        post: True
        """
        if (not h.THOROUGH or n == 3) and (c2 != 0 or d1 != 0):
            return     # 3 branches: 216 behaviour triples x 2 timer orders x 9 schedules already take ~15 min; the third choice point stays at its default
        susp_check(n, is_map, tol, [b0, b1, b2][:n], d0, d1, [c0, c1, c2])

    lem.__name__ = lem.__qualname__ = f"executor_suspension_{n}_{'map' if is_map else 'parallel'}_{'tolerant' if tol else 'failfast'}"
    reach = ("end", "suspended", "returned", "timed") + (("blocked", "resumed") if n >= 2 else ())
    return h.lemma(timeout=600, thorough_timeout=2400, funcs=XFUNCS, reach=reach, tier="quick" if (n <= 2 and not is_map) else "thorough",
                   bounds=f"{n} branches of a {'map' if is_map else 'parallel'}, each: succeeds / fails / parks on a callback / parks until now+d (d from {5,7,9}: both orders of two timers) / "
                          "parks then succeeds when resumed / never finishes; failures " + ("tolerated" if tol else "fail-fast") + "; completion order and timer activity solver-chosen at "
                          "the first two (three in thorough, for <= 2 branches) scheduling points; <= 40 scheduling actions")(lem)


for _n, _m in ((1, False), (2, False), (2, True), (3, False)):
    for _t in (False, True):
        _f = _mk_susp(_n, _m, _t)
        globals()[_f.__name__] = _f
del _f, _n, _m, _t


def _mk_timer_thread(fail_refresh):
    def lem(b0: int, b1: int, e: int, c0: int, c1: int, tol: bool):
        """
        pre: (b0 == 3 or b0 == 4 or b0 == 6) and 0 <= b1 < 7 and -1 <= e < 4 and 0 <= c0 < 3 and 0 <= c1 < 3
        post: True
        """
        susp_check(2, False, tol, [b0, b1], 0, 0, [c0, c1], eager=[e] if e >= 0 else [], fail_refresh=fail_refresh)

    lem.__name__ = lem.__qualname__ = "timer_thread_" + ("refresh_fails" if fail_refresh else "eager_completion")
    reach = ("end", "refresh_failed") if fail_refresh else ("end", "suspended", "returned", "resumed", "eager_resubmission")
    return h.lemma(timeout=600, thorough_timeout=2400, funcs=XFUNCS + ["concurrency.executor.TimerScheduler._timer_loop/schedule_resume/shutdown", "execute().resubmitter/submit_task"],
                   reach=reach,
                   bounds="parallel of 2 branches; branch 0 parks until now+5 (always, or once and then succeeds) or on a timer that is already due, branch 1: any of the seven behaviours; "
                          "ONE solver-chosen submit() (initial or timer-driven resubmission, ordinal 0..3) whose task has already finished when the submitting thread "
                          "reaches add_done_callback - the callback then runs on the submitting thread (the timer thread inside its critical section, for a resubmission); "
                          "TimerScheduler._lock modelled as a non-reentrant lock; " +
                          ("the empty state-refresh checkpoint of the first resubmission fails with BackgroundThreadError and every later checkpoint too; " if fail_refresh else "") +
                          "completion order solver-chosen at the first two scheduling points; <= 40 scheduling actions")(lem)


timer_thread_eager_completion = _mk_timer_thread(False)
timer_thread_refresh_fails = _mk_timer_thread(True)

# executions reach a terminal state within the invocation bound, no invocation blocks forever (composed world lemmas shared with C02)
from harness import C02 as _C02  # noqa: E402

reaches_terminal_state_steps = _C02.t_steps_wait_child_page1
reaches_terminal_state_steps.__module__ = __name__
reaches_terminal_state_condition_callback_invoke = _C02.t_condition_callback_invoke_page1
reaches_terminal_state_condition_callback_invoke.__module__ = __name__
