"""C05 - checkpoint stream: nothing lost, duplicated or reordered; limits respected; every sync caller released.

World: harness/batcher.py (real pipeline methods, coroutine-lowered, solver-scheduled).  n producer threads each
hand over one update (symbolic size, sync/async, possibly an empty checkpoint) through the real create_checkpoint,
racing with the real consumer loop; the solver picks sizes, limits, the batching window, the successor at every
blocking point and up to K preemptions.
"""
from __future__ import annotations

from vk import h
from harness.batcher import ASSUMPTIONS_BATCHER, Client, Upd, World

ASSUMPTIONS = ASSUMPTIONS_BATCHER + [
    "no API failure in this property's lemmas (failures: C06)",
]
FUNCS = ["state.ExecutionState.create_checkpoint", "state.ExecutionState.checkpoint_batches_forever",
         "state.ExecutionState._collect_checkpoint_batch", "state.ExecutionState.fetch_paginated_operations",
         "threading.CompletionEvent.set/wait/is_set"]

WINDOWS = [0.0, 0.2]
NMAX = 4 if h.THOROUGH else 3


def check_stream(w: World, n, sizes, syncs, empties, max_bytes, max_ops):
    cl = w.client
    handed = [q.operation_update.i for q in w.handover if q.operation_update is not None]
    # exactly once, in hand-over order
    h.check(cl.applied == handed[:len(cl.applied)], "updates delivered out of hand-over order, duplicated, or invented")
    # token chain
    for k, (tok, _ups) in enumerate(cl.calls):
        h.check(tok == ("tok0" if k == 0 else f"tok{k}"), "API call did not carry the token returned by the previous call")
    # limits
    for (_tok, ups) in cl.calls:
        h.check(len(ups) <= max_ops, "operation-count limit exceeded")
        tot = 0
        for i in ups:
            tot += sizes[i]
        h.check(tot <= max_bytes or len(ups) == 1, "size limit exceeded by a multi-update call")
    # every synchronous caller is released, with success, after its update (and everything before it) was applied
    for i in range(n):
        name = f"p{i}"
        if syncs[i]:
            h.check(name in w.outcomes, "a synchronous caller blocks forever")
            h.check(w.outcomes[name][0] == "ok", "caller failed although the API never failed")
            pos = [j for j, q in enumerate(w.handover) if q.operation_update is not None and q.operation_update.i == i] if not empties[i] else []
            if pos:
                before = [q.operation_update.i for q in w.handover[:pos[0] + 1] if q.operation_update is not None]
                h.check(w.returned_at[name] >= len(before), "synchronous checkpoint returned before everything handed over earlier was delivered")
        else:
            h.check(name in w.outcomes and w.outcomes[name][0] == "ok", "asynchronous hand-over must return at once")
    h.check(w.consumer.exc is None, "consumer thread died")


@h.lemma(timeout=300, thorough_timeout=1800, funcs=FUNCS, reach=("end", "overflow", "batched", "single_oversize"),
         bounds="3 updates (4 thorough) queued before the consumer's batching window closes; sizes any int >= 0, max_bytes/max_ops any int >= 1; "
                "last update synchronous; window 0.2 s; no preemption")
def stream_sizes(s0: int, s1: int, s2: int, s3: int, max_bytes: int, max_ops: int):
    """
    pre: s0 >= 0 and s1 >= 0 and s2 >= 0 and s3 >= 0
    pre: max_bytes >= 1 and max_ops >= 1
    post: True
    """
    n = NMAX
    sizes = [s0, s1, s2, s3][:n]
    syncs = [False] * (n - 1) + [True]
    w = World(max_bytes, max_ops, 0.2, Client())
    for i in range(n):
        w.producer(f"p{i}", Upd(i, sizes[i]), syncs[i])
    w.run()
    if any(len(ups) >= 2 for (_t, ups) in w.client.calls):
        h.reach("batched")
    if len(w.client.calls) >= 2 and sizes[0] + sizes[1] > max_bytes and max_ops >= 2:
        h.reach("overflow")
    if sizes[1] > max_bytes:
        h.reach("single_oversize")
    check_stream(w, n, sizes, syncs, [False] * n, max_bytes, max_ops)
    h.end()


SYNC_PATTERNS = [[True, True, True], [False, False, True], [True, False, False], [False, True, False]]
EMPTY_PATTERNS = [[False, False, False], [True, False, False], [False, True, False], [False, False, True], [True, True, False]]


def _mk_arrivals(widx, c0):
    def lem(sp: int, ep: int, c1: int):
        """
        pre: 0 <= sp < 4 and 0 <= ep < 5 and 0 <= c1 < 3
        post: True
        """
        n = 3
        sizes = [1, 1, 1]
        syncs = SYNC_PATTERNS[sp]
        empties = EMPTY_PATTERNS[ep]
        w = World(2, 2, WINDOWS[widx], Client(), choices=[c0, c1])
        for i in range(n):
            w.producer(f"p{i}", None if empties[i] else Upd(i, sizes[i]), syncs[i])
        w.run()
        if any(len(ups) >= 2 for (_t, ups) in w.client.calls):
            h.reach("batched")
        if any(empties):
            h.reach("emptyckpt")
        check_stream(w, n, sizes, syncs, empties, 2, 2)
        h.end()

    lem.__name__ = lem.__qualname__ = f"stream_arrivals_w{widx}_c{c0}"
    return h.lemma(timeout=300, thorough_timeout=900, funcs=FUNCS, reach=("end", "emptyckpt") + (("batched",) if widx == 1 else ()),
                   bounds=f"3 updates of size 1 (limits 2 bytes / 2 ops), 4 sync patterns x 5 empty-checkpoint patterns, window {WINDOWS[widx]} s, "
                          f"successor at the first blocking point = runnable[{c0}], at the second solver-chosen; no preemption")(lem)


for _w in range(2):
    for _c in range(3):
        _f = _mk_arrivals(_w, _c)
        globals()[_f.__name__] = _f
del _f, _w, _c


def _mk_preempt(pto, pto2=None):
    def lem(max_bytes: int, sp: int, pstep: int, pstep2: int):
        """
        pre: 1 <= max_bytes <= 2 and 0 <= sp < 4 and 1 <= pstep <= 24 and pstep < pstep2 <= 25
        post: True
        """
        if pto2 is None and pstep2 != pstep + 1:
            return
        n = 2
        sizes = [1, 1]
        syncs = SYNC_PATTERNS[sp][1:]
        w = World(max_bytes, 2, 0.2, Client(), pre_step=[pstep] if pto2 is None else [pstep, pstep2], pre_to=[pto] if pto2 is None else [pto, pto2])
        for i in range(n):
            w.producer(f"p{i}", Upd(i, sizes[i]), syncs[i])
        w.run()
        if w.sched.k == (1 if pto2 is None else 2):
            h.reach("preempted")
        check_stream(w, n, sizes, syncs, [False] * n, max_bytes, 2)
        h.end()

    lem.__name__ = lem.__qualname__ = f"stream_preempt_to{pto}" + ("" if pto2 is None else f"_then{pto2}")
    if pto2 is not None:
        return h.lemma(timeout=2400, thorough_timeout=2400, funcs=FUNCS, reach=("end", "preempted"), tier="thorough",
                       bounds="as stream_preempt_to*, with TWO preemptions at yield points s1 < s2 <= 25 switching to "
                              f"{['consumer', 'producer 0', 'producer 1'][pto]} and then to {['consumer', 'producer 0', 'producer 1'][pto2]}")(lem)
    return h.lemma(timeout=300, thorough_timeout=900, funcs=FUNCS, reach=("end", "preempted"),
                   bounds="2 updates of size 1, max_bytes 1 (second overflows) or 2, 4 sync patterns, window 0.2 s; ONE preemption at any of the first 24 "
                          f"yield points switching to thread {['consumer', 'producer 0', 'producer 1'][pto]}")(lem)


for _p in range(3):
    _f = _mk_preempt(_p)
    globals()[_f.__name__] = _f
    for _q in range(3):
        _f = _mk_preempt(_p, _q)
        globals()[_f.__name__] = _f
del _f, _p, _q


# "...or with the failure - and never blocks forever": the failing-call lemmas of C06 restated for this property
from harness import C06 as _C06  # noqa: E402

stream_fail_release_call1 = _C06._mk_fail_release(1)
stream_fail_release_call1.__module__ = __name__
stream_fail_release_call2 = _C06._mk_fail_release(2)
stream_fail_release_call2.__module__ = __name__
