"""C06 - "... including inside map/parallel branches and timer-driven resubmissions": the state refresh issued by the timer thread fails
(executor-world lemma shared with C07; separate module because C07's module also loads the composed world)."""
from __future__ import annotations

from harness import C07 as _C07
from harness.C07 import ASSUMPTIONS  # noqa: F401

timer_resubmission_refresh_fails = _C07.timer_thread_refresh_fails
timer_resubmission_refresh_fails.__module__ = __name__
