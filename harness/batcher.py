"""World for the checkpoint pipeline lemmas (C03, C05, C06): the REAL ExecutionState.create_checkpoint,
checkpoint_batches_forever, _collect_checkpoint_batch, fetch_paginated_operations and threading.CompletionEvent,
coroutine-lowered (vk/colower.py) and interleaved by the solver-driven scheduler (vk/sched.py).

Stubs (environment): queue.Queue -> FIFO list with virtual-time timeouts; time.time -> virtual clock;
threading.Event/Lock -> flags; service client -> scripted backend (token per call, failure at a chosen call,
optional pagination of the response); _calculate_operation_size -> the update's declared size.
"""
from __future__ import annotations

from vk import h

h.quiet_logging()

import aws_durable_execution_sdk_python.state as S  # noqa: E402
import aws_durable_execution_sdk_python.threading as T  # noqa: E402
from aws_durable_execution_sdk_python.exceptions import BackgroundThreadError  # noqa: E402
from aws_durable_execution_sdk_python.lambda_service import (  # noqa: E402
    CheckpointOutput, CheckpointUpdatedExecutionState, Operation, OperationStatus, OperationType, StateOutput,
)
from aws_durable_execution_sdk_python.state import CheckpointBatcherConfig, ExecutionState  # noqa: E402
from vk import colower, sched  # noqa: E402

ASSUMPTIONS_BATCHER = [
    "threads are coroutine-lowered real methods (vk/colower.py): create_checkpoint, checkpoint_batches_forever, _collect_checkpoint_batch, "
    "fetch_paginated_operations; a preemption can happen before every operation on shared state (main queue get/get_nowait/empty/put, completion "
    "event set, failure flag set/is_set, service call, operations merge); code between two such points runs atomically",
    "scheduling is context-bounded: <= K solver-chosen preemptions plus solver-chosen successors at blocking points; stated per lemma",
    "queue.Queue is a FIFO list; a timed get on an empty queue advances the virtual clock by the timeout and raises Empty; threading.Event/Lock are flags",
    "service client stub: k-th call returns token 'tok<k>' and one record per update (optionally split over pages), or raises at a solver-chosen call",
    "_calculate_operation_size returns the declared size of the update (json size estimation is environment)",
    "the consumer polling an empty main queue while every other thread is finished or blocked is quiescence: nothing can ever wake a blocked caller any more",
]

CONSUMER_POINTS = {"_checkpoint_queue.get", "_checkpoint_queue.get_nowait", "_overflow_queue.get_nowait", "get_nowait", "_checkpoint_queue.empty", "completion_event.set",
                   "_checkpointing_failed.set", "_service_client.checkpoint", "fetch_paginated_operations"}
PRODUCER_POINTS = {"_checkpointing_failed.is_set", "_checkpoint_queue.put"}
FETCH_POINTS = {"_service_client.get_execution_state", "operations.update"}

_lowered = {}


class HookedEvent(sched.VEvent):
    """Event whose set() reports to the current world: the woken thread may run at once."""

    world = None

    def set(self):
        was = self.flag
        self.flag = True
        if not was and HookedEvent.world is not None:
            HookedEvent.world.on_event_set(self)


def install():
    if _lowered:
        return _lowered
    S.queue = sched.QueueModule
    S.Lock = sched.VLock
    T.Event = HookedEvent
    T.Lock = sched.VLock

    class _Threading:
        Event = sched.VEvent

    S.threading = _Threading
    ExecutionState._orig_create_checkpoint = ExecutionState.create_checkpoint   # the unmodified method (harness/inv.py replaces the attribute)
    _lowered["collect"] = colower.lower_method(ExecutionState, "_collect_checkpoint_batch", CONSUMER_POINTS,
                                               idle_attrs={"_checkpoint_queue.get"})
    _lowered["fetch"] = colower.lower_method(ExecutionState, "fetch_paginated_operations", FETCH_POINTS)
    _lowered["consumer"] = colower.lower_method(ExecutionState, "checkpoint_batches_forever", CONSUMER_POINTS,
                                                sub={"_collect_checkpoint_batch", "fetch_paginated_operations"})
    _lowered["producer"] = colower.lower_method(ExecutionState, "create_checkpoint", PRODUCER_POINTS)
    assert _lowered["collect"] >= 2 and _lowered["consumer"] >= 3 and _lowered["producer"] >= 3, _lowered   # vacuity guard: the API call, the wake-ups and the hand-over are preemption points
    ExecutionState._orig_calculate_operation_size = ExecutionState.__dict__['_calculate_operation_size']   # the unmodified staticmethod
    ExecutionState._calculate_operation_size = staticmethod(lambda q: 0 if q.operation_update is None else q.operation_update.size)
    return _lowered


class Upd:
    """Minimal stand-in for OperationUpdate as seen by the pipeline (it only looks at these attributes)."""

    def __init__(self, i, size, parent_id=None, otype=OperationType.STEP, action=None):
        self.i = i
        self.size = size
        self.operation_id = f"op{i}"
        self.parent_id = parent_id
        self.operation_type = otype
        self.action = action


class Client:
    def __init__(self, fail_at=-1, page_split=False, exc=None):
        self.calls = []          # (token, [update.i ...])
        self.fail_at = fail_at   # 1-based index of the failing call
        self.page_split = page_split
        self.exc = exc or RuntimeError("api down")
        self.pages = {}
        self.state_calls = 0
        self.applied = []        # update indices the backend has accepted, in order

    def checkpoint(self, durable_execution_arn, checkpoint_token, updates, client_token):
        k = len(self.calls) + 1
        self.calls.append((checkpoint_token, [u.i for u in updates]))
        if k == self.fail_at:
            raise self.exc
        for u in updates:
            self.applied.append(u.i)
        ops = [Operation(u.operation_id, OperationType.STEP, OperationStatus.STARTED, name=f"call{k}") for u in updates]
        tok = f"tok{k}"
        if self.page_split and len(ops) >= 1:
            self.pages[f"m{k}"] = ops
            return CheckpointOutput(tok, CheckpointUpdatedExecutionState([], f"m{k}"))
        return CheckpointOutput(tok, CheckpointUpdatedExecutionState(ops, None))

    def get_execution_state(self, durable_execution_arn, checkpoint_token, next_marker, max_items=1000):
        self.state_calls += 1
        return StateOutput(self.pages[next_marker], None)


class World:
    def __init__(self, max_bytes, max_ops, window, client, pre_step=(), pre_to=(), choices=(), max_steps=300):
        install()
        self.clock = sched.Clock()
        S.time = self.clock
        sched.VQueue.clock = self.clock
        self.client = client
        self.state = ExecutionState("arn", "tok0", {}, client, CheckpointBatcherConfig(max_bytes, window, max_ops))
        self.sched = sched.Sched(pre_step, pre_to, choices, max_steps)
        self.handover = []   # order in which updates entered the main queue
        self.arrived = set()
        self.outcomes = {}   # producer name -> ("ok",) | ("err", exc) ; absent = still blocked
        self.returned_at = {}  # producer name -> number of backend-applied updates when create_checkpoint returned
        st = self.state
        orig_put = st._checkpoint_queue.put

        def put(q, _orig=orig_put):
            self.handover.append(q)
            _orig(q)

        st._checkpoint_queue.put = put
        sched.VQueue.idle_hook = None
        self.sched.on_step = self._on_step
        self.stopped_by_harness = False
        self.idle_streak = 0
        self.wake_error = {}   # id(CompletionEvent) -> error visible at the instant its event was set
        HookedEvent.world = self
        self.consumer = self.sched.spawn("consumer", st._co_checkpoint_batches_forever(), daemon=True)

    def _on_step(self, s, t, msg):
        if msg and msg[0] == "idle":
            self._idle(msg[1])
        elif t is not self.consumer or (msg and msg[0] == "pt" and msg[1] == "_service_client.checkpoint"):
            self.idle_streak = 0

    def _idle(self, q):
        # the consumer is blocked in a timed get on the empty main queue
        others = [t for t in self.sched.threads if t is not self.consumer and t.runnable()]
        if others:
            self.sched.force_switch = True   # let somebody else run
        else:
            # nobody else can run: the timed get simply times out.  Three timeouts in a row without any other progress
            # (no API call, no other thread step) is quiescence: nothing can wake a blocked caller any more -> stop the consumer
            self.idle_streak += 1
            if self.idle_streak >= 3:
                self.state.stop_checkpointing()
                self.stopped_by_harness = True

    def on_event_set(self, ev):
        # a waiter woken by this set may run immediately: record what it would see
        for q in self.handover:
            ce = q.completion_event
            if ce is not None and ce._event is ev:
                self.wake_error[id(ce)] = ce._error
        if self.state._checkpointing_failed._event is ev:
            self.wake_error["failed"] = self.state._checkpointing_failed._error

    def woke_clean(self, i):
        """True iff the synchronous caller of update i could have observed 'success' at the instant it was woken."""
        for q in self.handover:
            if q.operation_update is not None and q.operation_update.i == i and q.completion_event is not None:
                return id(q.completion_event) in self.wake_error and self.wake_error[id(q.completion_event)] is None
        return False

    def producer(self, name, update, is_sync, arrives_at=None):
        """arrives_at=k: the caller enters create_checkpoint exactly when the k-th scheduling step begins (a preemption registered for step k
        switches to it); before that it does not exist for the scheduler"""
        w = self

        class _Gate:
            def is_set(self_):  # noqa: N805
                return w.sched.step >= arrives_at

        def body():
            if arrives_at is not None:
                yield ("blocked", _Gate())
                w.arrived.add(name)
            try:
                yield from self.state._co_create_checkpoint(update, is_sync)
            except BackgroundThreadError as e:
                self.outcomes[name] = ("err", e)
                self.returned_at[name] = len(self.client.applied)
                return
            self.outcomes[name] = ("ok",)
            self.returned_at[name] = len(self.client.applied)

        return self.sched.spawn(name, body())

    def run(self):
        try:
            self.sched.run()
        except sched.Deadlock:
            # every thread that is not done is blocked forever
            pass
        return self


install()  # at import time: source lowering must not run under CrossHair's tracer
