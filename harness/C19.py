"""C19 - OrderedLock / OrderedCounter: FIFO, exclusive, gap-free, never wedged.

Decision procedure: per-atomic-action induction over an ARBITRARY lock state satisfying the
representation invariant Inv, plus whole-scenario lemmas in which a new arrival runs the real
`acquire` and the solver chooses what every predecessor does (release / leave with an exception).

  state   = (flags of the queued per-caller events, broken flag)
  Inv     = not broken: exactly the head event is set;  broken: every event is set
  actions = real OrderedLock.acquire (locked block + wait + post-wait check), release, __exit__,
            OrderedCounter.increment - executed on stub Event/Lock objects (threading.Event/Lock are
            C code; the stub keeps a flag and makes `wait` on an unset flag a scheduling point)

Because every action is executed inside `with self._lock` (checked on the AST by lemma
`locked_writes`), actions are atomic and any interleaving of k threads is a sequence of them; a lemma
that holds for every Inv-state therefore holds after every history.
"""
from __future__ import annotations

import ast
import inspect
from collections import deque
from typing import List

from vk import h

h.quiet_logging()

import aws_durable_execution_sdk_python.threading as T  # noqa: E402
from aws_durable_execution_sdk_python.exceptions import OrderedLockError  # noqa: E402

ASSUMPTIONS = [
    "threading.Event/Lock replaced by flag stubs (C primitives): Event.set/is_set/wait on a boolean, Lock as a non-reentrant mutex that asserts it is never taken twice",
    "a blocked Event.wait is a scheduling point at which the solver-chosen predecessor actions run (real release/__exit__ code)",
    "atomicity of the locked blocks is provided by threading.Lock (lemma locked_writes checks on the AST that every write to _waiters/_is_broken/_exception happens inside `with self._lock`)",
    "bounds: at most 4 queued callers in the arbitrary pre-state; at most 3 predecessors in scenario lemmas",
]

FUNCS = ["threading.OrderedLock.acquire", "threading.OrderedLock.release", "threading.OrderedLock.__exit__",
         "threading.OrderedLock.__enter__", "threading.OrderedCounter.increment", "threading.OrderedCounter.decrement",
         "threading.OrderedCounter.get_current"]


class Blocked(BaseException):
    pass


class Deadlock(AssertionError):
    pass


class Ev:
    """Stub threading.Event."""

    hook = None    # callable run when a wait finds the flag unset (the scheduler)
    on_set = None  # callable run right after an event was set: the woken thread may run immediately

    def __init__(self, flag=False):
        self.flag = flag

    def set(self):
        was = self.flag
        self.flag = True
        if not was and Ev.on_set is not None:
            Ev.on_set(self)

    def clear(self):
        self.flag = False

    def is_set(self):
        return self.flag

    def wait(self, timeout=None):
        if not self.flag and Ev.hook is not None:
            Ev.hook(self)
        if not self.flag:
            raise Blocked()
        return True


class Lk:
    """Stub threading.Lock: non-reentrant; nesting would be a self-deadlock."""

    on_exit = None  # callable run right after the inner lock was released: another thread's atomic action may run here

    def __init__(self):
        self.held = False

    def __enter__(self):
        if self.held:
            raise Deadlock("inner lock taken twice")
        self.held = True
        return self

    def __exit__(self, *a):
        self.held = False
        if Lk.on_exit is not None:
            cb, Lk.on_exit = Lk.on_exit, None
            try:
                cb()
            finally:
                if Lk.on_exit is None:
                    Lk.on_exit = cb
        return False

    def acquire(self, *a, **k):
        self.__enter__()
        return True

    def release(self):
        self.held = False


T.Event = Ev
T.Lock = Lk


def inv(flags, broken):
    if broken:
        return all(flags)
    return all(f == (i == 0) for i, f in enumerate(flags))


def reset_hooks():
    Ev.hook = None
    Ev.on_set = None
    Lk.on_exit = None


def mk(flags, broken):
    reset_hooks()
    lock = T.OrderedLock()
    lock._waiters = type(lock._waiters)(Ev(f) for f in flags)   # same container type as the implementation uses (deque today)
    lock._is_broken = broken
    if broken:
        lock._exception = ValueError("earlier")
    return lock


def flags_of(lock):
    return [e.flag for e in lock._waiters]


MAXQ = 5 if h.THOROUGH else 4


@h.lemma(timeout=60, funcs=FUNCS, bounds="arbitrary Inv-state, queue length <= MAXQ (4 quick / 5 thorough)", inductive=True)
def act_arrive(flags: List[bool], broken: bool):
    """
    pre: len(flags) <= MAXQ
    pre: inv(flags, broken)
    post: True
    """
    Ev.hook = None
    lock = mk(flags, broken)
    old_events = list(lock._waiters)
    n = len(flags)
    try:
        lock.acquire()
        got = "acquired"
    except Blocked:
        got = "blocked"
    except OrderedLockError:
        got = "error"
    new = flags_of(lock)
    if broken:
        h.reach("broken")
        h.check(got == "error", "acquire on a broken lock must raise OrderedLockError")
        h.check(new == flags, "a rejected acquirer must not grow the queue")
    else:
        h.check(got != "error", "unbroken lock raised")
        h.check(len(new) == n + 1, "arrival must be appended exactly once")
        h.check(list(lock._waiters)[:n] == old_events, "arrival must be appended at the tail (FIFO)")
        h.check(inv(new, False), "Inv broken by arrival")
        h.check((got == "acquired") == (n == 0), "ownership granted iff the queue was empty")
        if got == "blocked":
            h.reach("blocked")
    h.check(not lock._lock.held, "inner lock leaked")
    h.end()


act_arrive.__vk__["reach"] = ("end", "broken", "blocked")


@h.lemma(timeout=60, funcs=FUNCS, bounds="arbitrary Inv-state, 1 <= queue length <= MAXQ", inductive=True)
def act_release(flags: List[bool], broken: bool):
    """
    pre: 1 <= len(flags) <= MAXQ
    pre: inv(flags, broken)
    post: True
    """
    Ev.hook = None
    lock = mk(flags, broken)
    old_events = list(lock._waiters)
    lock.release()
    new = flags_of(lock)
    h.check(list(lock._waiters) == old_events[1:], "release must remove exactly the head")
    h.check(inv(new, broken), "Inv broken by release (lost or spurious wakeup)")
    if not broken and len(new) >= 1:
        h.check(new[0], "next waiter not woken (lost wakeup)")
        h.check(not any(new[1:]), "more than one waiter woken (exclusion)")
        h.reach("handover")
    h.check(not lock._lock.held, "inner lock leaked")
    h.end()


act_release.__vk__["reach"] = ("end", "handover")


@h.lemma(timeout=60, funcs=FUNCS, bounds="release on an empty queue", inductive=True)
def act_release_empty(broken: bool):
    """
    post: True
    """
    Ev.hook = None
    lock = mk([], broken)
    try:
        lock.release()
        h.check(False, "release without acquire must raise")
    except OrderedLockError:
        pass
    h.check(len(lock._waiters) == 0 and lock._is_broken == broken)
    h.end()


@h.lemma(timeout=60, funcs=FUNCS, bounds="arbitrary unbroken Inv-state, 1 <= queue length <= MAXQ; exit with/without exception", inductive=True)
def act_exit(flags: List[bool], with_exc: bool):
    """
    pre: 1 <= len(flags) <= MAXQ
    pre: inv(flags, False)
    post: True
    """
    Ev.hook = None
    lock = mk(flags, False)
    old_events = list(lock._waiters)
    boom = ValueError("boom")
    if with_exc:
        ret = lock.__exit__(ValueError, boom, None)
        new = flags_of(lock)
        h.check(not ret, "__exit__ must not swallow the holder's own exception")
        h.check(lock._is_broken, "lock must be marked broken")
        h.check(lock._exception is boom, "breaking exception must be recorded")
        h.check(all(new), "every current waiter must be woken after a break")
        h.check(list(lock._waiters) == old_events[1:], "holder removed, waiters kept")
        h.check(all(e.flag for e in old_events[1:]), "each waiter's own event must be set")
        h.reach("broke")
    else:
        ret = lock.__exit__(None, None, None)
        new = flags_of(lock)
        h.check(not ret)
        h.check(not lock._is_broken, "clean exit must not break the lock")
        h.check(list(lock._waiters) == old_events[1:], "holder removed")
        h.check(inv(new, False), "Inv broken by clean exit")
    h.check(not lock._lock.held, "inner lock leaked")
    h.end()


act_exit.__vk__["reach"] = ("end", "broke")


@h.lemma(timeout=90, funcs=FUNCS,
         bounds="new arrival behind <= 3 predecessors (arbitrary unbroken Inv-state); each predecessor leaves by release or by an exception (solver-chosen)")
def scenario_acquire(npred: int, fail0: bool, fail1: bool, fail2: bool):
    """
    pre: 0 <= npred <= 3
    post: True
    """
    fails = [fail0, fail1, fail2][:npred]
    flags = [i == 0 for i in range(npred)]
    lock = mk(flags, False)
    preds = list(lock._waiters)
    boom = [ValueError("b0"), KeyError("b1"), RuntimeError("b2")]
    state = {"first_fail": None, "steps": 0}

    def scheduler(my_event):
        # every predecessor, in queue order, is the holder in turn and leaves its critical section
        for i in range(npred):
            if lock._is_broken:
                break
            h.check(not my_event.flag, "arrival woken while a predecessor still holds the lock (exclusion/FIFO)")
            h.check(preds[i].flag, "holder's own event must be set")
            h.check(lock._waiters[0] is preds[i], "holder must be the head of the queue")
            if fails[i]:
                state["first_fail"] = boom[i]
                ret = lock.__exit__(type(boom[i]), boom[i], None)
                h.check(not ret)
            else:
                lock.__exit__(None, None, None)
            state["steps"] += 1
        if not my_event.flag:
            raise Deadlock("lost wakeup: every predecessor left but the arrival was never woken")

    def woken(ev):
        # the woken waiter may run at once: everything it reads after the wait must already be published
        if state["first_fail"] is not None:
            h.check(lock._is_broken and lock._exception is state["first_fail"],
                    "waiter woken before the break was published (it could read _is_broken == False and take ownership)")

    Ev.hook = scheduler
    Ev.on_set = woken
    try:
        try:
            r = lock.acquire()
            got = "acquired"
        except OrderedLockError as e:
            got = "error"
            err = e
    finally:
        reset_hooks()
    if state["first_fail"] is None:
        h.check(got == "acquired" and r is True, "arrival must own the lock after all predecessors released")
        h.check(len(lock._waiters) == 1 and lock._waiters[0].flag, "owner must be the only, set, head")
        h.check(not lock._is_broken)
        h.reach("acquired")
        # and can release; lock is then free
        lock.release()
        h.check(len(lock._waiters) == 0)
    else:
        h.check(got == "error", "waiter behind a failing holder must get OrderedLockError, not ownership")
        h.check(err.source_exception is state["first_fail"], "error must carry the breaking exception")
        h.check(lock._is_broken)
        h.reach("error")
        # a future acquirer fails fast too
        try:
            lock.acquire()
            h.check(False, "future acquirer on broken lock must raise")
        except OrderedLockError:
            pass
    h.end()


scenario_acquire.__vk__["reach"] = ("end", "acquired", "error")


@h.lemma(timeout=90, funcs=FUNCS, bounds="with-statement on a free lock; body raises or not")
def scenario_with(raises: bool):
    """
    post: True
    """
    Ev.hook = None
    lock = T.OrderedLock()
    boom = ValueError("mine")
    seen = None
    try:
        with lock:
            h.check(len(lock._waiters) == 1 and lock._waiters[0].flag)
            if raises:
                raise boom
    except ValueError as e:
        seen = e
    if raises:
        h.check(seen is boom, "holder must see its own exception")
        h.check(lock.is_broken())
    else:
        h.check(seen is None and not lock.is_broken())
    h.check(len(lock._waiters) == 0)
    h.end()


@h.lemma(timeout=120, funcs=FUNCS,
         bounds="counter value arbitrary int; arrival behind <= 3 predecessors each of which finishes its own increment (real code path of the holder: +1 then release) before the arrival proceeds")
def scenario_counter(c0: int, npred: int):
    """
    pre: 0 <= npred <= 3
    post: True
    """
    ctr = T.OrderedCounter()
    ctr._counter = c0
    lock = ctr._lock
    lock._waiters = type(lock._waiters)(Ev(i == 0) for i in range(npred))
    preds = list(lock._waiters)
    got = []

    def scheduler(my_event):
        for i in range(npred):
            h.check(not my_event.flag, "arrival woken early")
            # the holder's critical section of increment(): executed via the real code by a direct
            # re-entry is impossible (it is blocked inside `with`), so its two effects are replayed:
            ctr._counter += 1
            got.append(ctr._counter)
            lock.__exit__(None, None, None)
        if not my_event.flag:
            raise Deadlock("lost wakeup")

    Ev.hook = scheduler
    try:
        v = ctr.increment()
    finally:
        Ev.hook = None
    h.check(v == c0 + npred + 1, "increment must return previous+1 in arrival order")
    h.check(got == [c0 + 1 + i for i in range(npred)], "predecessors numbered in order")
    h.check(ctr._counter == v and len(lock._waiters) == 0 and not lock._is_broken)
    h.check(ctr.get_current() == v)
    h.check(ctr.decrement() == v - 1)
    h.end()


@h.lemma(timeout=120, funcs=FUNCS, reach=("end", "t1owner", "t1blocked"),
         bounds="arbitrary unbroken Inv-state (queue <= 2); arrival T1 runs the real acquire and a second arrival T2 runs the real acquire "
                "at the k-th release of the inner lock inside T1's acquire (k solver-chosen: every lock-boundary interleaving of two arrivals)")
def scenario_two_arrivals(flags: List[bool], k: int):
    """
    pre: len(flags) <= 2
    pre: inv(flags, False)
    pre: 0 <= k <= 2
    post: True
    """
    lock = mk(flags, False)
    n = len(flags)
    st = {"exits": 0, "t2": None}

    def boundary():
        st["exits"] += 1
        if st["exits"] == k and st["t2"] is None:
            hk, Ev.hook = Ev.hook, None
            try:
                lock.acquire()
                st["t2"] = "acquired"
            except Blocked:
                st["t2"] = "blocked"
            finally:
                Ev.hook = hk

    Lk.on_exit = boundary
    try:
        try:
            lock.acquire()
            t1 = "acquired"
        except Blocked:
            t1 = "blocked"
    finally:
        reset_hooks()
    new = flags_of(lock)
    arrivals = 1 + (1 if st["t2"] is not None else 0)
    h.check(len(new) == n + arrivals, "each arrival queued exactly once")
    h.check(inv(new, False), "Inv broken by two racing arrivals (lost wakeup: nobody owns a non-empty queue)")
    if n == 0:
        h.reach("t1owner")
        h.check(t1 == "acquired", "first arrival at a free lock must own it even if a second arrival races in")
        h.check(st["t2"] in (None, "blocked"), "second arrival must wait")
    else:
        h.reach("t1blocked")
        h.check(t1 == "blocked" and st["t2"] in (None, "blocked"))
    h.end()


@h.lemma(timeout=120, funcs=FUNCS, reach=("end", "succ"),
         bounds="counter arbitrary; incrementer T behind <= 2 predecessors and with 0/1 successor S queued behind it; S runs its own increment "
                "(effect +1) the instant its event is set (models immediate preemption after the wake-up)")
def scenario_counter_successor(c0: int, npred: int, with_succ: bool):
    """
    pre: 0 <= npred <= 2
    post: True
    """
    ctr = T.OrderedCounter()
    ctr._counter = c0
    lock = ctr._lock
    reset_hooks()
    lock._waiters = type(lock._waiters)(Ev(i == 0) for i in range(npred))
    st = {"succ_ev": None, "succ_ran": False, "mine": None}

    def boundary():
        # right after T queued itself: a successor arrives behind it
        if with_succ and st["succ_ev"] is None and len(lock._waiters) == npred + 1:
            hk, Ev.hook = Ev.hook, None  # the successor simply blocks (its wait is not T's scheduling point)
            try:
                lock.acquire()
                h.check(False, "successor acquired while T is queued ahead of it")
            except Blocked:
                pass
            finally:
                Ev.hook = hk
            st["succ_ev"] = lock._waiters[-1]
            st["mine"] = lock._waiters[npred]

    def woken(ev):
        if ev is st["succ_ev"]:
            # S owns the lock now and runs to completion immediately
            st["succ_ran"] = True
            ctr._counter += 1

    def scheduler(my_event):
        for _ in range(npred):
            ctr._counter += 1
            lock.__exit__(None, None, None)
        if not my_event.flag:
            raise Deadlock("lost wakeup")

    Lk.on_exit = boundary
    Ev.on_set = woken
    Ev.hook = scheduler
    try:
        v = ctr.increment()
    finally:
        reset_hooks()
    h.check(v == c0 + npred + 1, "increment must return the value it produced under the lock (no gap/duplicate when a successor runs at once)")
    if with_succ:
        h.reach("succ")
        h.check(st["succ_ran"], "successor must be woken by T's release")
        h.check(ctr._counter == c0 + npred + 2)
    h.end()


@h.lemma(timeout=30, funcs=FUNCS, bounds="AST of threading.py as found in /repo", kind="qz")
def locked_writes():
    """Every write to OrderedLock._waiters/_is_broken/_exception (outside __init__) is lexically inside `with self._lock`."""
    src = inspect.getsource(T.OrderedLock)
    tree = ast.parse(src)
    bad = []
    n_writes = 0

    cls = tree.body[0]
    methods = {n.name: n for n in cls.body if isinstance(n, ast.FunctionDef)}

    def calls_outside_lock(fn_node, target):
        """does fn_node call self.<target>() lexically outside `with self._lock`?"""
        found = []

        class C(ast.NodeVisitor):
            def __init__(self):
                self.locked = 0

            def visit_With(self, node):
                is_lock = any(isinstance(i.context_expr, ast.Attribute) and i.context_expr.attr == "_lock" for i in node.items)
                self.locked += is_lock
                self.generic_visit(node)
                self.locked -= is_lock

            def visit_Call(self, node):
                f = node.func
                if isinstance(f, ast.Attribute) and f.attr == target and isinstance(f.value, ast.Name) and f.value.id == "self":
                    found.append(bool(self.locked))
                self.generic_visit(node)

        C().visit(fn_node)
        return found

    # private helpers whose EVERY call site is inside the inner lock (directly or in another such helper) run under the lock as a whole
    always_locked = set()
    changed = True
    while changed:
        changed = False
        for name in methods:
            if name in always_locked or not name.startswith("_") or name.startswith("__"):
                continue
            sites = []
            for caller, node in methods.items():
                for inside in calls_outside_lock(node, name):
                    sites.append(inside or caller in always_locked)
            if sites and all(sites):
                always_locked.add(name)
                changed = True

    class V(ast.NodeVisitor):
        def __init__(self):
            self.locked = 0
            self.fn = None

        def visit_FunctionDef(self, node):
            old = self.fn
            self.fn = node.name
            held = node.name in always_locked
            self.locked += held
            self.generic_visit(node)
            self.locked -= held
            self.fn = old

        def visit_With(self, node):
            is_lock = any(isinstance(i.context_expr, ast.Attribute) and i.context_expr.attr == "_lock" for i in node.items)
            if is_lock:
                self.locked += 1
            self.generic_visit(node)
            if is_lock:
                self.locked -= 1

        def _w(self, node, what):
            nonlocal n_writes
            if self.fn == "__init__":
                return
            n_writes += 1
            if not self.locked:
                bad.append(f"{self.fn}:{node.lineno}:{what}")

        def visit_Assign(self, node):
            for t in node.targets:
                if isinstance(t, ast.Attribute) and t.attr in ("_waiters", "_is_broken", "_exception"):
                    self._w(node, t.attr)
            self.generic_visit(node)

        def visit_Attribute(self, node):
            nonlocal n_writes
            if node.attr == "_waiters" and self.fn != "__init__":
                n_writes += 1
                if not self.locked:
                    bad.append(f"{self.fn}:{node.lineno}:access to _waiters outside the inner lock")
            self.generic_visit(node)

        def visit_Call(self, node):
            f = node.func
            if (isinstance(f, ast.Attribute) and f.attr in ("append", "popleft", "pop", "appendleft", "clear", "remove", "extend", "insert")
                    and isinstance(f.value, ast.Attribute) and f.value.attr == "_waiters"):
                self._w(node, "_waiters." + f.attr)
            self.generic_visit(node)

    V().visit(tree)
    # a SUFFICIENT condition for the action-induction argument (atomic actions = critical sections of the inner lock).  If it fails the induction lemmas
    # no longer cover the code, but nothing has been shown to go wrong: that is INCONCLUSIVE, never a violation - the scenario lemmas, which run
    # other threads right after the inner lock is released, are the ones that can exhibit a concrete failing schedule.
    return {"verdict": "CONFIRMED" if not bad and n_writes >= 4 else "UNKNOWN", "queries": n_writes,
            "detail": ("side condition of the induction argument not met - unlocked accesses: " + ", ".join(bad)) if bad else f"{n_writes} writes, all under the inner lock",
            "reproduced": False}
