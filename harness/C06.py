"""C06 - checkpoint failure is fail-stop: no progress, no hang, no success.

Pipeline lemmas (world: harness/batcher.py - real create_checkpoint / checkpoint_batches_forever /
_collect_checkpoint_batch / CompletionEvent, coroutine-lowered, solver-scheduled):
  F1 fail_release   : the API call number k fails (k solver-chosen) while updates sit in the batch, the overflow queue
                      and the main queue: every synchronous caller is released WITH the failure (none succeeds unless its
                      update was really applied, none blocks forever), the failure flag is set, no further API call is made.
  F1b fail_then_new : a caller arriving after the failure (sync or async) gets the failure at once and nothing is queued.
  F2 fail_race      : one solver-chosen preemption anywhere in producer or consumer (including between the producer's
                      failed-check and its put, and inside the consumer's drain): still nobody blocks forever.
Executor / wrapper level (F3, F4) live in harness/exec_world.py lemmas below.
"""
from __future__ import annotations

from vk import h
from harness.batcher import ASSUMPTIONS_BATCHER, Client, Upd, World
from aws_durable_execution_sdk_python.exceptions import BackgroundThreadError

ASSUMPTIONS = ASSUMPTIONS_BATCHER + [
    "the failing API call raises an arbitrary Exception instance (classification of the error is C18)",
]
FUNCS = ["state.ExecutionState.create_checkpoint", "state.ExecutionState.checkpoint_batches_forever",
         "state.ExecutionState._collect_checkpoint_batch", "threading.CompletionEvent.set/wait/is_set"]

SYNC_PATTERNS = [[True, True, True], [False, False, True], [True, False, True], [False, True, False]]


def check_failstop(w: World, n, syncs, fail_at):
    cl = w.client
    failed = len(cl.calls) >= fail_at
    if failed:
        h.check(len(cl.calls) == fail_at, "an API call was made after the failing one")
        h.check(w.state._checkpointing_failed.is_set(), "failure flag not set after a failed call")
    for i in range(n):
        name = f"p{i}"
        if name not in w.outcomes:
            h.check(False, "a caller blocks forever after the checkpoint failure")
        kind = w.outcomes[name][0]
        if syncs[i]:
            if w.woke_clean(i):
                h.check(i in cl.applied, "a synchronous caller was woken without an error although the backend never accepted its update "
                                         "(event set before the error was stored)")
            if kind == "ok":
                h.check(i in cl.applied, "a synchronous caller was told 'persisted' although the backend never accepted its update")
            else:
                h.check(isinstance(w.outcomes[name][1], BackgroundThreadError))
                h.check(failed, "failure reported although no call failed")
                h.check(w.outcomes[name][1].source_exception is cl.exc, "the failure must carry the original error")
        else:
            # an async hand-over returns at once, or raises if the pipeline is already dead
            h.check(kind == "ok" or failed)
    h.check(w.consumer.done or not failed, "consumer must exit after a failure")


def _mk_fail_release(fail_at):
    def lem(sp: int, big: int, c0: int, c1: int):
        """
        pre: 0 <= sp < 4 and 0 <= big < 4 and 0 <= c0 < 3 and 0 <= c1 < 3
        post: True
        """
        n = 3
        sizes = [1, 1, 1]
        if big < 3:
            sizes[big] = 5   # does not fit next to anything: forces the overflow queue to be used
        syncs = SYNC_PATTERNS[sp]
        w = World(3, 3, 0.2, Client(fail_at=fail_at), choices=[c0, c1])
        for i in range(n):
            w.producer(f"p{i}", Upd(i, sizes[i]), syncs[i])
        w.run()
        if len(w.client.calls) >= fail_at:
            h.reach("failed")
            if len(w.state._overflow_queue.items) == 0 and big < 3:
                h.reach("overflow_used")
        check_failstop(w, n, syncs, fail_at)
        h.end()

    lem.__name__ = lem.__qualname__ = f"fail_release_call{fail_at}"
    return h.lemma(timeout=300, thorough_timeout=900, funcs=FUNCS, reach=("end", "failed"),
                   bounds=f"3 updates (sizes 1, optionally one of size 5 > what fits: overflow queue in use), limits 3 bytes / 3 ops, 4 sync patterns, "
                          f"API call #{fail_at} fails; successors at the first two blocking points solver-chosen; no preemption")(lem)


for _k in (1, 2):
    _f = _mk_fail_release(_k)
    globals()[_f.__name__] = _f
del _f, _k


@h.lemma(timeout=300, funcs=FUNCS, reach=("end", "late_sync", "late_async"),
         bounds="first call fails with one sync update; then a second caller (sync or async, solver-chosen) issues a checkpoint")
def fail_then_new(late_sync: bool, first_sync: bool):
    """
    post: True
    """
    w = World(10, 10, 0.0, Client(fail_at=1))
    w.producer("p0", Upd(0, 1), first_sync)
    w.run()
    h.check(w.state._checkpointing_failed.is_set() and len(w.client.calls) == 1)
    # a later caller, after the pipeline died
    n_before = len(w.handover)
    w2 = w
    w2.sched.threads = [t for t in w2.sched.threads if not t.done]
    w2.producer("p1", Upd(1, 1), late_sync)
    w2.run()
    h.reach("late_sync" if late_sync else "late_async")
    h.check("p1" in w2.outcomes, "a caller issuing a checkpoint after the failure blocks forever")
    h.check(w2.outcomes["p1"][0] == "err" and isinstance(w2.outcomes["p1"][1], BackgroundThreadError),
            "a checkpoint issued after the failure must raise the failure immediately (sync or async)")
    h.check(len(w.handover) == n_before, "nothing may be queued after the failure")
    h.check(len(w.client.calls) == 1, "no further API call")
    h.end()


@h.lemma(timeout=300, thorough_timeout=900, funcs=FUNCS, reach=("end", "arrived_during_failure_path", "arrived_after"),
         bounds="update 0 (async or sync) is sent alone and its API call fails; a second caller (sync or async) ARRIVES at any of the first 30 scheduling "
                "steps - i.e. at every yield point of the consumer's failure path (before/inside/after the drain, before the failed flag is set) - and runs "
                "until it blocks; afterwards every thread runs to completion or blocks")
def fail_late_arrival(k: int, first_sync: bool, late_sync: bool):
    """
    pre: 1 <= k <= 30
    post: True
    """
    w = World(3, 3, 0.2, Client(fail_at=1), pre_step=[k], pre_to=[2])
    w.producer("p0", Upd(0, 1), first_sync)
    w.producer("p1", Upd(1, 1), late_sync, arrives_at=k)
    w.run()
    if "p1" not in w.arrived:
        return   # the run was over before step k: no late arrival on this path
    calls = len(w.client.calls)
    if w.sched.k == 1 and calls >= 1 and "p1" in w.outcomes and w.outcomes["p1"][0] == "err":
        h.reach("arrived_during_failure_path")
    check_failstop(w, 2, [first_sync, late_sync], 1)
    h.reach("arrived_after")
    h.end()


def _mk_fail_race(pto, pto2=None):
    def lem(sp: int, pstep: int, first_big: bool, pstep2: int):
        """
        pre: 0 <= sp < 4 and 1 <= pstep <= 26 and pstep < pstep2 <= 27
        post: True
        """
        if pto2 is None and pstep2 != pstep + 1:
            return
        n = 2
        sizes = [5 if first_big else 1, 1]
        syncs = SYNC_PATTERNS[sp][1:]
        w = World(3, 3, 0.2, Client(fail_at=1), pre_step=[pstep] if pto2 is None else [pstep, pstep2], pre_to=[pto] if pto2 is None else [pto, pto2])
        for i in range(n):
            w.producer(f"p{i}", Upd(i, sizes[i]), syncs[i])
        w.run()
        if w.sched.k == (1 if pto2 is None else 2):
            h.reach("preempted")
        check_failstop(w, n, syncs, 1)
        h.end()

    lem.__name__ = lem.__qualname__ = f"fail_race_to{pto}" + ("" if pto2 is None else f"_then{pto2}")
    if pto2 is not None:
        return h.lemma(timeout=2400, thorough_timeout=2400, funcs=FUNCS, reach=("end", "preempted"), tier="thorough",
                       bounds="as fail_race_to*, with TWO preemptions at yield points s1 < s2 <= 27 switching to "
                              f"{['consumer', 'producer 0', 'producer 1'][pto]} and then to {['consumer', 'producer 0', 'producer 1'][pto2]}")(lem)
    return h.lemma(timeout=300, thorough_timeout=900, funcs=FUNCS, reach=("end", "preempted"),
                   bounds="2 updates, first API call fails; ONE preemption at any of the first 26 yield points (incl. between the producer's failed-check "
                          f"and its put, and inside the consumer's failure drain) switching to thread {['consumer', 'producer 0', 'producer 1'][pto]}")(lem)


for _p in range(3):
    _f = _mk_fail_race(_p)
    globals()[_f.__name__] = _f
    for _q in range(3):
        _f = _mk_fail_race(_p, _q)
        globals()[_f.__name__] = _f
del _f, _p, _q


# ------------------------------------------------------------------------------------------------ F3: failure delivered inside a map/parallel branch
from harness import exec_world as XW  # noqa: E402
from aws_durable_execution_sdk_python.config import CompletionConfig  # noqa: E402

ASSUMPTIONS = ASSUMPTIONS + XW.ASSUMPTIONS_EXEC
XFUNCS = ["concurrency.executor.ConcurrentExecutor.execute/_on_task_complete/should_execution_suspend", "concurrency.models.ExecutableWithState.*"]


def _mk_branch_failure(n):
    def lem(which: int, o1: int, o2: int, tol: bool, c0: int, c1: int):
        """
        pre: 0 <= which < 3 and 0 <= o1 < 3 and 0 <= o2 < 3 and 0 <= c0 < 3 and 0 <= c1 < 3
        post: True
        """
        if which >= n:
            return
        others = [o1, o2]
        beh, never = [], []
        j = 0
        for i in range(n):
            if i == which:
                beh.append(("bgerr",))
                continue
            k = others[j]
            j += 1
            if k == 0:
                beh.append(("ok", i))
            elif k == 1:
                beh.append(("park",))
            else:
                beh.append(("ok", i))
                never.append(i)
        script = XW.Script(beh)
        world = XW.World(choices=[c0, c1], never=never)
        ex = XW.make_executor(script, False, CompletionConfig(tolerated_failure_count=n) if tol else CompletionConfig(), None)
        (kind, val), st = XW.run_execute(ex, world)
        if script.entries[which] == 0:
            h.end()      # the failing branch never ran (the policy was decided before): nothing to check here
            return
        h.reach("failure_delivered")
        h.check(kind != "deadlock", "a checkpoint failure raised inside a branch leaves execute() blocked forever (the invocation hangs)")
        h.check(not (kind == "ret"), "map/parallel returned a result although a branch was woken with a checkpoint failure")
        h.check(kind == "raise" and isinstance(val, BackgroundThreadError), "the checkpoint failure must propagate out of map/parallel (fail-stop), not turn into PENDING or a result")
        h.end()

    lem.__name__ = lem.__qualname__ = f"branch_checkpoint_failure_{n}"
    return h.lemma(timeout=400, thorough_timeout=1200, funcs=XFUNCS, reach=("end", "failure_delivered"),
                   bounds=f"parallel with {n} branches: one branch (any position) is woken with BackgroundThreadError, the others succeed / park / never finish; "
                          "failures tolerated or fail-fast; completion order solver-chosen")(lem)


for _n in (1, 2, 3):
    _f = _mk_branch_failure(_n)
    globals()[_f.__name__] = _f
del _f, _n
