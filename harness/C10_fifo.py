"""C10 - FIFO delivery lemma shared with C05 (separate module: C10's other lemmas replace the size accounting module-wide)."""
from __future__ import annotations

from harness.C05 import ASSUMPTIONS  # noqa: F401

# an update of a descendant that was accepted BEFORE the completion record must also be DELIVERED before it: FIFO delivery across batch and overflow
# boundaries (lemma shared with C05)
from harness import C05 as _C05  # noqa: E402

fifo_delivery_across_overflow = _C05.stream_sizes
fifo_delivery_across_overflow.__module__ = __name__
