"""C20 - wire model codecs are lossless inverses.

Real code: lambda_service.{ErrorObject, *Options, *Details, OperationUpdate, Operation, TimestampConverter},
execution.{InitialExecutionState, DurableExecutionInvocationInput, DurableExecutionInvocationOutput}
to_dict/from_dict/to_json_dict/from_json_dict and every OperationUpdate.create_* factory.

Oracle: decode(encode(x)) == x modulo exactly the normalisation the statement allows - an empty optional
string equals absent, an object whose wire form is {} equals absent, timestamps truncated to ms.
"""
from __future__ import annotations

import datetime as _dt
from typing import Optional

from vk import h

h.quiet_logging()

import aws_durable_execution_sdk_python.lambda_service as LS  # noqa: E402
from aws_durable_execution_sdk_python.execution import (  # noqa: E402
    DurableExecutionInvocationInput, DurableExecutionInvocationOutput, InitialExecutionState, InvocationStatus,
)
from aws_durable_execution_sdk_python.identifier import OperationIdentifier  # noqa: E402
from aws_durable_execution_sdk_python.lambda_service import (  # noqa: E402
    CallbackDetails, CallbackOptions, ChainedInvokeDetails, ChainedInvokeOptions, ContextDetails, ContextOptions, ErrorObject,
    ExecutionDetails, Operation, OperationAction, OperationStatus, OperationSubType, OperationType, OperationUpdate,
    StepDetails, StepOptions, TimestampConverter, WaitDetails, WaitOptions,
)

if h.MODE == "sx":
    # CrossHair substitutes its own pure-Python timedelta when traced code CALLS datetime.timedelta; mixing it with the real timedelta produced by
    # `aware_datetime - _EPOCH` raises a spurious TypeError.  Inside lambda_service the name `datetime` is therefore bound to a shim whose timedelta()
    # builds the real C object outside the tracer (timestamps are concrete in these lemmas; the float/integer kernels are decided by the z3 queries below).
    class _DTShim:
        datetime = _dt.datetime
        UTC = _dt.UTC

        @staticmethod
        def timedelta(*a, **k):
            from crosshair.core import NoTracing
            with NoTracing():
                return _dt.timedelta(*a, **k)

    LS.datetime = _DTShim

ASSUMPTIONS = [
    "inside lambda_service the datetime module is a shim returning real C datetime/timedelta objects (CrossHair's substituted timedelta cannot be mixed with real ones); replays use the real module",
    "strings len <= 2, ints unbounded, enums by index (every member), Optionals both ways",
    "timestamps in the SX lemmas are 4 concrete aware datetimes (UTC and +05:30/-08:00 offsets, ms precision) or None: datetime arithmetic is C code; "
    "the float kernel int(dt.timestamp()*1000) / fromtimestamp(ms/1000) is decided separately by the z3 FP query ts_kernel",
    "equality is modulo the normalisation the statement allows: '' == absent for optional strings; an object whose wire form is {} == absent",
]
FUNCS = ["lambda_service.OperationUpdate.to_dict/from_dict/create_*", "lambda_service.Operation.to_dict/from_dict/to_json_dict/from_json_dict",
         "lambda_service.ErrorObject/StepOptions/WaitOptions/CallbackOptions/ChainedInvokeOptions/ContextOptions.to_dict/from_dict",
         "lambda_service.*Details.from_dict", "lambda_service.TimestampConverter", "execution.InitialExecutionState.*",
         "execution.DurableExecutionInvocationInput.*", "execution.DurableExecutionInvocationOutput.to_dict/from_dict"]

TYPES = list(OperationType)
ACTIONS = list(OperationAction)
STATUSES = list(OperationStatus)
SUBTYPES = [None] + list(OperationSubType)
TZ1 = _dt.timezone(_dt.timedelta(hours=5, minutes=30))
TZ2 = _dt.timezone(_dt.timedelta(hours=-8))
STAMPS = [None,
          _dt.datetime(2025, 3, 1, 12, 0, 0, 123000, tzinfo=_dt.UTC),
          _dt.datetime(2024, 12, 31, 23, 59, 59, 999000, tzinfo=TZ1),
          _dt.datetime(2031, 7, 4, 1, 2, 3, 1000, tzinfo=TZ2),
          _dt.datetime(2000, 1, 1, tzinfo=_dt.UTC)]


def nz(s):
    """optional string: '' == absent"""
    return s if s else None


def n_err(e):
    if e is None:
        return None
    if e.message is None and e.type is None and e.data is None and e.stack_trace is None:
        return None
    return e


def mk_err(present: bool, has_msg: bool, msg: str, has_type: bool, typ: str, has_trace: bool):
    if not present:
        return None
    return ErrorObject(msg if has_msg else None, typ if has_type else None, None, ["f1", "f2"] if has_trace else None)


# ------------------------------------------------------------------------------ OperationUpdate
def n_update(u: OperationUpdate):
    return (u.operation_id, u.operation_type, u.action, nz(u.parent_id), nz(u.name), u.sub_type, nz(u.payload), n_err(u.error),
            u.context_options, u.step_options, u.wait_options, u.callback_options, u.chained_invoke_options)


def _upd_check(u):
    d = u.to_dict()
    back = OperationUpdate.from_dict(d)
    h.check(n_update(back) == n_update(u), "OperationUpdate changed by to_dict/from_dict")
    return d


@h.lemma(timeout=200, funcs=FUNCS, bounds="OperationUpdate: every type x action x sub-type (incl. None), other fields fixed")
def update_enums(ti: int, ai: int, sti: int):
    """
    pre: 0 <= ti < 6 and 0 <= ai < 5 and 0 <= sti < 12
    post: True
    """
    d = _upd_check(OperationUpdate("id", TYPES[ti], ACTIONS[ai], "p", "n", SUBTYPES[sti], "pl"))
    h.check(d["Type"] == TYPES[ti].value and d["Action"] == ACTIONS[ai].value)
    h.check(d.get("SubType") == (SUBTYPES[sti].value if SUBTYPES[sti] else None))
    h.end()


@h.lemma(timeout=200, funcs=FUNCS, bounds="OperationUpdate: id/parent/name/payload strings (len<=2) present/absent/empty, error object variants (message/type/trace present or not)")
def update_strings(oid: str, has_parent: bool, parent: str, has_name: bool, name: str, has_payload: bool, payload: str,
                   err_present: bool, has_msg: bool, msg: str, has_type: bool, has_trace: bool):
    """
    pre: len(oid) <= 2 and len(parent) <= 2 and len(name) <= 2 and len(payload) <= 2 and len(msg) <= 2
    post: True
    """
    u = OperationUpdate(oid, OperationType.STEP, OperationAction.FAIL, parent if has_parent else None, name if has_name else None,
                        OperationSubType.STEP, payload if has_payload else None, mk_err(err_present, has_msg, msg, has_type, "T", has_trace))
    d = _upd_check(u)
    h.check(d["Id"] == oid)
    h.check(d.get("ParentId") == nz(parent if has_parent else None) and d.get("Name") == nz(name if has_name else None))
    h.check(d.get("Payload") == nz(payload if has_payload else None))
    h.end()


@h.lemma(timeout=200, funcs=FUNCS, reach=("end", "allopts"),
         bounds="OperationUpdate: each option object alone or all together, symbolic ints (any value incl. 0 and negatives), tenant/function strings len<=2")
def update_options(optsel: int, rc: bool, delay: int, wsecs: int, cto: int, chb: int, has_tenant: bool, tenant: str, fn: str):
    """
    pre: 0 <= optsel < 7
    pre: len(tenant) <= 2 and len(fn) <= 2
    post: True
    """
    allo = optsel == 6
    u = OperationUpdate(
        "id", OperationType.STEP, OperationAction.START,
        context_options=ContextOptions(rc) if optsel == 1 or allo else None,
        step_options=StepOptions(delay) if optsel == 2 or allo else None,
        wait_options=WaitOptions(wsecs) if optsel == 3 or allo else None,
        callback_options=CallbackOptions(cto, chb) if optsel == 4 or allo else None,
        chained_invoke_options=ChainedInvokeOptions(fn, tenant if has_tenant else None) if optsel == 5 or allo else None,
    )
    if allo:
        h.reach("allopts")
    d = _upd_check(u)
    # the wire form contains every option the update was created with
    if u.step_options is not None:
        h.check(d["StepOptions"]["NextAttemptDelaySeconds"] == delay)
    if u.wait_options is not None:
        h.check(d["WaitOptions"]["WaitSeconds"] == wsecs)
    if u.callback_options is not None:
        h.check(d["CallbackOptions"]["TimeoutSeconds"] == cto and d["CallbackOptions"]["HeartbeatTimeoutSeconds"] == chb)
    if u.context_options is not None:
        h.check(d["ContextOptions"]["ReplayChildren"] == rc)
    if u.chained_invoke_options is not None:
        h.check(d["ChainedInvokeOptions"]["FunctionName"] == fn)
        h.check(d["ChainedInvokeOptions"].get("TenantId") == (tenant if has_tenant else None))
    h.end()


@h.lemma(timeout=200, funcs=FUNCS, reach=("end",),
         bounds="every OperationUpdate.create_* factory (14) with symbolic identifier (id/parent/name, len<=2), payload, error, and option values; wire dict must carry all of them")
def factories(which: int, oid: str, has_parent: bool, parent: str, has_name: bool, name: str, payload: str, msg: str,
              n1: int, n2: int, rc: bool, sti: int, has_tenant: bool, tenant: str):
    """
    pre: 0 <= which < 14 and 1 <= sti < 12
    pre: 1 <= len(oid) <= 2 and 1 <= len(parent) <= 2 and 1 <= len(name) <= 2 and 1 <= len(payload) <= 2 and len(msg) <= 2 and 1 <= len(tenant) <= 2
    post: True
    """
    ident = OperationIdentifier(oid, parent if has_parent else None, name if has_name else None)
    err = ErrorObject(msg, "T", None, None)
    st = SUBTYPES[sti]
    U = OperationUpdate
    exp = {}
    if which == 0:
        u = U.create_callback(ident, CallbackOptions(n1, n2)); exp = dict(t="CALLBACK", a="START", st="Callback", opts=("CallbackOptions", {"TimeoutSeconds": n1, "HeartbeatTimeoutSeconds": n2}))
    elif which == 1:
        u = U.create_context_start(ident, st); exp = dict(t="CONTEXT", a="START", st=st.value)
    elif which == 2:
        u = U.create_context_succeed(ident, payload, st, ContextOptions(rc)); exp = dict(t="CONTEXT", a="SUCCEED", st=st.value, payload=payload, opts=("ContextOptions", {"ReplayChildren": rc}))
    elif which == 3:
        u = U.create_context_fail(ident, err, st); exp = dict(t="CONTEXT", a="FAIL", st=st.value, err=True)
    elif which == 4:
        u = U.create_step_start(ident); exp = dict(t="STEP", a="START", st="Step")
    elif which == 5:
        u = U.create_step_succeed(ident, payload); exp = dict(t="STEP", a="SUCCEED", st="Step", payload=payload)
    elif which == 6:
        u = U.create_step_fail(ident, err); exp = dict(t="STEP", a="FAIL", st="Step", err=True)
    elif which == 7:
        u = U.create_step_retry(ident, err, n1); exp = dict(t="STEP", a="RETRY", st="Step", err=True, opts=("StepOptions", {"NextAttemptDelaySeconds": n1}))
    elif which == 8:
        u = U.create_invoke_start(ident, payload, ChainedInvokeOptions(name, tenant if has_tenant else None))
        o = {"FunctionName": name}
        if has_tenant:
            o["TenantId"] = tenant
        exp = dict(t="CHAINED_INVOKE", a="START", st="ChainedInvoke", payload=payload, opts=("ChainedInvokeOptions", o))
    elif which == 9:
        u = U.create_wait_for_condition_start(ident); exp = dict(t="STEP", a="START", st="WaitForCondition")
    elif which == 10:
        u = U.create_wait_for_condition_succeed(ident, payload); exp = dict(t="STEP", a="SUCCEED", st="WaitForCondition", payload=payload)
    elif which == 11:
        u = U.create_wait_for_condition_retry(ident, payload, n1); exp = dict(t="STEP", a="RETRY", st="WaitForCondition", payload=payload, opts=("StepOptions", {"NextAttemptDelaySeconds": n1}))
    elif which == 12:
        u = U.create_wait_for_condition_fail(ident, err); exp = dict(t="STEP", a="FAIL", st="WaitForCondition", err=True)
    else:
        u = U.create_wait_start(ident, WaitOptions(n1)); exp = dict(t="WAIT", a="START", st="Wait", opts=("WaitOptions", {"WaitSeconds": n1}))
    d = u.to_dict()
    h.check(d["Id"] == oid and d["Type"] == exp["t"] and d["Action"] == exp["a"] and d.get("SubType") == exp["st"], "identity/type/action/sub-type")
    h.check(d.get("ParentId") == (parent if has_parent else None), "parent link lost in the wire form")
    h.check(d.get("Name") == (name if has_name else None), "name lost in the wire form")
    h.check(d.get("Payload") == exp.get("payload"), "payload lost/added")
    if exp.get("err"):
        h.check(d.get("Error") == {"ErrorMessage": msg, "ErrorType": "T"}, "error lost")
    else:
        h.check("Error" not in d)
    if "opts" in exp:
        h.check(d.get(exp["opts"][0]) == exp["opts"][1], "options lost in the wire form")
    h.check(n_update(OperationUpdate.from_dict(d)) == n_update(u), "factory update changed by a round trip")
    h.end()


# ------------------------------------------------------------------------------ Operation
def n_step(sd):
    if sd is None:
        return None
    return (sd.attempt, sd.next_attempt_timestamp, nz(sd.result), n_err(sd.error))


def n_ctx(cd):
    if cd is None:
        return None
    return (bool(cd.replay_children), cd.result, n_err(cd.error))


def n_cb(c):
    if c is None:
        return None
    return (c.callback_id, nz(c.result), n_err(c.error))


def n_inv(c):
    if c is None:
        return None
    t = (nz(c.result), n_err(c.error))
    return None if t == (None, None) else t


def n_wait(w):
    if w is None or w.scheduled_end_timestamp is None:
        return None
    return w.scheduled_end_timestamp


def n_op(o: Operation):
    return (o.operation_id, o.operation_type, o.status, nz(o.parent_id), nz(o.name), o.start_timestamp, o.end_timestamp, o.sub_type,
            o.execution_details, n_ctx(o.context_details), n_step(o.step_details), n_wait(o.wait_details), n_cb(o.callback_details),
            n_inv(o.chained_invoke_details))


def mk_op(oid, ti, si, has_parent, parent, has_name, name, sti, t0, t1, dsel, attempt, t2, has_res, res, err, rc, cbid, has_in):
    return Operation(
        operation_id=oid, operation_type=TYPES[ti], status=STATUSES[si], parent_id=parent if has_parent else None,
        name=name if has_name else None, start_timestamp=STAMPS[t0], end_timestamp=STAMPS[t1], sub_type=SUBTYPES[sti],
        execution_details=ExecutionDetails(res if has_in else None) if dsel == 0 else None,
        context_details=ContextDetails(rc, res if has_res else None, err) if dsel == 1 else None,
        step_details=StepDetails(attempt, STAMPS[t2], res if has_res else None, err) if dsel == 2 else None,
        wait_details=WaitDetails(STAMPS[t2]) if dsel == 3 else None,
        callback_details=CallbackDetails(cbid, res if has_res else None, err) if dsel == 4 else None,
        chained_invoke_details=ChainedInvokeDetails(res if has_res else None, err) if dsel == 5 else None,
    )


def _op_check(o, json_form):
    if json_form:
        jd = o.to_json_dict()
        for k in ("StartTimestamp", "EndTimestamp"):
            if k in jd:
                h.check(isinstance(jd[k], int), "JSON form must carry integer millisecond timestamps")
        back = Operation.from_json_dict(jd)
        if back.start_timestamp is not None:
            h.check(back.start_timestamp.utcoffset() == _dt.timedelta(0), "decoded timestamps are UTC-aware")
    else:
        back = Operation.from_dict(o.to_dict())
    h.check(n_op(back) == n_op(o), "Operation changed by a wire round trip (a replay-relevant field was dropped or altered)")


@h.lemma(timeout=300, funcs=FUNCS, bounds="Operation: every type x status x sub-type (incl. None); dict and JSON forms")
def operation_enums(ti: int, si: int, sti: int, json_form: bool):
    """
    pre: 0 <= ti < 6 and 0 <= si < 8 and 0 <= sti < 12
    post: True
    """
    _op_check(Operation("id", TYPES[ti], STATUSES[si], "p", "n", STAMPS[1], None, SUBTYPES[sti]), json_form)
    h.end()


@h.lemma(timeout=300, funcs=FUNCS, reach=("end", "stamped"),
         bounds="Operation: id/parent/name strings (len<=2) present/absent/empty; start/end timestamps None or 4 aware datetimes (UTC, +05:30, -08:00); dict and JSON forms")
def operation_strings_stamps(oid: str, has_parent: bool, parent: str, has_name: bool, name: str, t0: int, t1: int, json_form: bool):
    """
    pre: len(oid) <= 2 and len(parent) <= 2 and len(name) <= 2 and 0 <= t0 < 5 and 0 <= t1 < 5
    post: True
    """
    if t0 > 0 and t1 > 0:
        h.reach("stamped")
    _op_check(Operation(oid, OperationType.STEP, OperationStatus.STARTED, parent if has_parent else None, name if has_name else None,
                        STAMPS[t0], STAMPS[t1]), json_form)
    h.end()


def _mk_details(dsel):
    names = ["execution", "context", "step", "wait", "callback", "invoke"]

    def lem(si: int, attempt: int, t2: int, has_res: bool, res: str, err_present: bool, has_msg: bool, msg: str,
            rc: bool, cbid: str, has_in: bool, json_form: bool):
        """
        pre: 0 <= si < 8 and 0 <= t2 < 5
        pre: len(res) <= 2 and len(msg) <= 2 and len(cbid) <= 2
        post: True
        """
        if dsel != 2 and si != 3:
            return  # status is independent of the details codecs (operation_enums covers it); varied for step details only
        err = mk_err(err_present, has_msg, msg, True, "T", False)
        o = mk_op("id", 2, si, True, "p", False, "", 1, 1, 0, dsel, attempt, t2, has_res, res, err, rc, cbid, has_in)
        if has_res and err_present:
            h.reach("full")
        _op_check(o, json_form)
        h.end()

    lem.__name__ = lem.__qualname__ = "operation_details_" + names[dsel]
    return h.lemma(timeout=300, funcs=FUNCS, reach=("end", "full"),
                   bounds=f"Operation with {names[dsel]} details: any status, attempt any int, next-attempt/scheduled-end timestamp None or 4 aware "
                          "datetimes, result None/''/str(len<=2), error variants, ReplayChildren flag, callback id str(len<=2); dict and JSON forms")(lem)


for _d in range(6):
    _f = _mk_details(_d)
    globals()[_f.__name__] = _f
del _f, _d


# ------------------------------------------------------------------------------ invocation input / output
@h.lemma(timeout=200, funcs=FUNCS, reach=("end", "two"),
         bounds="InitialExecutionState / DurableExecutionInvocationInput with <= 2 operations (execution + one step/context), marker/arn/token strings len<=2; dict and JSON forms")
def invocation_input_roundtrip(arn: str, tok: str, marker: str, nops: int, attempt: int, t2: int, has_res: bool, res: str, rc: bool,
                               use_json: bool, ctx: bool):
    """
    pre: len(arn) <= 2 and len(tok) <= 2 and len(marker) <= 2 and len(res) <= 2
    pre: 0 <= nops <= 2 and 0 <= t2 < 5
    post: True
    """
    ops = [Operation("e", OperationType.EXECUTION, OperationStatus.STARTED, execution_details=ExecutionDetails(res if has_res else None)),
           Operation("c", OperationType.CONTEXT, OperationStatus.SUCCEEDED, parent_id="e", start_timestamp=STAMPS[t2],
                     context_details=ContextDetails(rc, res if has_res else None, None)) if ctx else
           Operation("s", OperationType.STEP, OperationStatus.PENDING, parent_id="e", sub_type=OperationSubType.STEP,
                     step_details=StepDetails(attempt, STAMPS[t2], res if has_res else None, None))][:nops]
    inp = DurableExecutionInvocationInput(arn, tok, InitialExecutionState(ops, marker))
    if nops == 2:
        h.reach("two")
    if use_json:
        back = DurableExecutionInvocationInput.from_json_dict(inp.to_json_dict())
    else:
        back = DurableExecutionInvocationInput.from_dict(inp.to_dict())
    h.check(back.durable_execution_arn == arn and back.checkpoint_token == tok, "arn/token changed")
    h.check(back.initial_execution_state.next_marker == marker, "marker changed")
    h.check([n_op(x) for x in back.initial_execution_state.operations] == [n_op(x) for x in ops], "operations changed")
    h.end()


@h.lemma(timeout=120, funcs=FUNCS, bounds="DurableExecutionInvocationOutput: every status, result None/''/str(len<=2), error variants")
def invocation_output_roundtrip(si: int, has_res: bool, res: str, err_present: bool, has_msg: bool, msg: str, has_type: bool, has_trace: bool):
    """
    pre: 0 <= si < 3 and len(res) <= 2 and len(msg) <= 2
    post: True
    """
    out = DurableExecutionInvocationOutput(list(InvocationStatus)[si], res if has_res else None,
                                           mk_err(err_present, has_msg, msg, has_type, "T", has_trace))
    d = out.to_dict()
    back = DurableExecutionInvocationOutput.from_dict(d)
    h.check(back.status is out.status and back.result == out.result and n_err(back.error) == n_err(out.error), "invocation output changed")
    h.check(d["Status"] == out.status.value)
    h.end()


# ------------------------------------------------------------------------------ timestamp float kernel (direct z3 FP queries)
MS_HI = 4_102_444_800_000  # 2100-01-01T00:00:00Z


def _ts_intrinsics(U=None):
    import ast
    import z3
    from vk import py2smt as P

    def intr(tr, node):
        # dt.timestamp()  ->  correctly rounded U / 10**6  (CPython: timedelta.total_seconds of an aware datetime minus the epoch)
        if (isinstance(node, ast.Call) and isinstance(node.func, ast.Attribute) and node.func.attr == "timestamp"
                and isinstance(node.func.value, ast.Name) and tr.env.get(node.func.value.id, ("",))[0] == "us"):
            u = tr.env[node.func.value.id][1]
            return ("fp", z3.fpDiv(P.RNE, z3.fpUnsignedToFP(P.RNE, u, P.F64), z3.FPVal(1e6, P.F64)))
        # aware datetimes only: dt.tzinfo is a non-None object, dt.astimezone() denotes the same instant
        if isinstance(node, ast.Attribute) and node.attr == "tzinfo" and isinstance(node.value, ast.Name) and tr.env.get(node.value.id, ("",))[0] == "us":
            return ("const", "<tzinfo>")
        if (isinstance(node, ast.Call) and isinstance(node.func, ast.Attribute) and node.func.attr == "astimezone" and not node.args
                and isinstance(node.func.value, ast.Name) and tr.env.get(node.func.value.id, ("",))[0] == "us"):
            return tr.env[node.func.value.id]
        # datetime.timedelta(milliseconds=k)
        if (isinstance(node, ast.Call) and isinstance(node.func, ast.Attribute) and node.func.attr == "timedelta"
                and not node.args and len(node.keywords) == 1 and isinstance(node.keywords[0].value, ast.Constant)):
            unit = {"milliseconds": 1000, "microseconds": 1, "seconds": 10**6}.get(node.keywords[0].arg)
            if unit is None:
                raise P.Untranslatable("timedelta unit")
            return ("us", z3.BitVecVal(unit * node.keywords[0].value.value, 64))
        # datetime.datetime.fromtimestamp(x, tz=datetime.UTC): CPython _PyTime_DoubleToDenominator(ROUND_HALF_EVEN), x >= 0
        if isinstance(node, ast.Call) and isinstance(node.func, ast.Attribute) and node.func.attr == "fromtimestamp":
            if len(node.args) != 1 or [k.arg for k in node.keywords] != ["tz"]:
                raise P.Untranslatable("fromtimestamp signature")
            x = P.to_fp(tr.expr(node.args[0]))
            ip = z3.fpRoundToIntegral(z3.RTN(), x)
            frac = z3.fpSub(P.RNE, x, ip)
            v = z3.fpRoundToIntegral(z3.RNE(), z3.fpMul(P.RNE, frac, z3.FPVal(1e6, P.F64)))
            carry = z3.fpGEQ(v, z3.FPVal(1e6, P.F64))
            v2 = z3.If(carry, z3.fpSub(P.RNE, v, z3.FPVal(1e6, P.F64)), v)
            ip2 = z3.If(carry, z3.fpAdd(P.RNE, ip, z3.FPVal(1.0, P.F64)), ip)
            us = z3.fpToUBV(z3.RTZ(), ip2, z3.BitVecSort(64)) * z3.BitVecVal(10**6, 64) + z3.fpToUBV(z3.RTZ(), v2, z3.BitVecSort(64))
            return ("us", us)
        return None

    return intr


def _solve(s, tmo_ms):
    import z3

    s.set("timeout", int(tmo_ms))
    r = s.check()
    return str(r), (s.model() if str(r) == "sat" else None)


@h.lemma(timeout=600, thorough_timeout=1800, funcs=["lambda_service.TimestampConverter.to_unix_millis"], kind="qz",
         bounds="every aware datetime with microsecond resolution from 1970-01-01 to 2100-01-01 (U in [0, 4.1e15] microseconds), IEEE double semantics bit-exact (z3 QF_BVFP)")
def ts_kernel_encode():
    """to_unix_millis(dt) == floor(microseconds since epoch / 1000) - translated from the method's AST."""
    import os
    import z3
    from vk import py2smt as P

    fn = P.fn_ast(TimestampConverter.to_unix_millis)
    U = z3.BitVec("U", 64)
    env = {fn.args.args[0].arg: ("us", U), "_EPOCH": ("us", z3.BitVecVal(0, 64))}
    tr = P.Tr(env, _ts_intrinsics(), "fp")
    outs, _ = tr.run(fn.body)
    s = z3.Solver()
    s.add(z3.ULE(U, MS_HI * 1000))
    bad = []
    for cond, val in outs:
        if val[0] == "none":
            bad.append(cond)  # a datetime must never encode to None
        else:
            bad.append(z3.And(cond, P.to_bv(val) != z3.UDiv(U, z3.BitVecVal(1000, 64))))
    # vacuity guard: the encoding must admit a run, and an off-by-one expectation must be refutable
    g = z3.Solver()
    g.add(z3.ULE(U, MS_HI * 1000), z3.Or(*[z3.And(c, P.to_bv(v) != z3.UDiv(U, z3.BitVecVal(1000, 64)) + 1) for c, v in outs if v[0] != "none"]))
    if _solve(g, 60000)[0] != "sat":
        return {"verdict": "ERROR", "queries": 1, "detail": "vacuity guard failed: encoding admits no run"}
    s.add(z3.Or(*bad))
    res, m = _solve(s, float(os.environ.get("VK_QZ_TIMEOUT", "600")) * 1000 * 0.9)
    if res == "unsat":
        return {"verdict": "CONFIRMED", "queries": 2, "detail": "unsat: no datetime in range encodes to a wrong millisecond (guard query sat)"}
    if res != "sat":
        return {"verdict": "UNKNOWN", "queries": 1, "detail": "solver: " + res}
    u = m[U].as_long()
    dt = _dt.datetime(1970, 1, 1, tzinfo=_dt.UTC) + _dt.timedelta(microseconds=u)
    got = TimestampConverter.to_unix_millis(dt)
    return {"verdict": "REFUTED", "queries": 1, "reproduced": got != u // 1000,
            "call": f"ts_kernel_encode()  # U={u}",
            "detail": f"to_unix_millis({dt!r}) = {got}, exact milliseconds since epoch = {u // 1000} (float rounding in the encoder)"}


@h.lemma(timeout=300, funcs=["lambda_service.TimestampConverter.from_unix_millis"], kind="qz",
         bounds="every millisecond timestamp from 1970-01-01 to 2100-01-01 (ms in [0, 4.1e12]); doubles over-approximated by the standard model: each "
                "IEEE operation returns the exact real result with relative error <= 2^-53 (z3 QF_LIRA/NRA); CPython's fromtimestamp rounding "
                "(modf, *1e6, round-half-even, carry) modelled on reals")
def ts_kernel_decode():
    """from_unix_millis(ms) is exactly ms*1000 microseconds after the epoch - translated from the method's AST.

    (The bit-exact QF_BVFP encoding of this kernel did not finish in 600 s in z3 4.x/5.x or cvc5 1.0, for the full range or one binade;
    the error-bound encoding is a sound over-approximation of round-to-nearest and is decided in milliseconds.)
    """
    import ast
    import os
    import z3
    from vk import py2smt as P

    fn = P.fn_ast(TimestampConverter.from_unix_millis)
    MS = z3.Int("MS")
    EPS = z3.RealVal(1) / z3.RealVal(2 ** 53)
    TMAX = z3.RealVal(MS_HI) / 1000 + 1
    errs = []

    def rounded(x, bound):
        """RN(x) for |x| <= bound: x + e with |e| <= 2^-53 * bound (absolute form keeps the query linear)."""
        e = z3.Real(f"e{len(errs)}")
        errs.append(z3.And(e >= -EPS * bound, e <= EPS * bound))
        return x + e

    def intr(tr, node):
        if isinstance(node, ast.BinOp) and isinstance(node.op, ast.Div):
            a, b = tr.expr(node.left), tr.expr(node.right)
            if a[0] == "int" and b[0] == "const" and isinstance(b[1], int) and b[1] > 0:
                return ("real", rounded(z3.ToReal(a[1]) / b[1], TMAX))
            raise P.Untranslatable("division shape")
        if isinstance(node, ast.Call) and isinstance(node.func, ast.Attribute) and node.func.attr == "fromtimestamp":
            if len(node.args) != 1 or [k.arg for k in node.keywords] != ["tz"]:
                raise P.Untranslatable("fromtimestamp signature")
            x = P.to_real(tr.expr(node.args[0]))
            ip = z3.ToInt(x)                                 # modf: floor for x >= 0 (exact)
            frac = rounded(x - z3.ToReal(ip), z3.RealVal(1))
            v = rounded(frac * 1000000, z3.RealVal(1000001))
            r = z3.Int("r")                                  # round-half-even(v): any integer within 1/2 (ties resolved either way: over-approx.)
            tr.side.append(z3.And(z3.ToReal(r) - v <= z3.RealVal("1/2"), v - z3.ToReal(r) <= z3.RealVal("1/2")))
            carry = r >= 1000000
            return ("int", z3.If(carry, (ip + 1) * 1000000 + (r - 1000000), ip * 1000000 + r))
        return None

    tr = P.Tr({fn.args.args[0].arg: ("int", MS)}, intr, "real")
    outs, _ = tr.run(fn.body)
    s = z3.Solver()
    s.add(MS >= 0, MS <= MS_HI, *errs, *tr.side)
    bad = []
    for cond, val in outs:
        bad.append(cond if val[0] == "none" else z3.And(cond, P.to_int(val) != MS * 1000))
    g = z3.Solver()
    g.add(MS >= 0, MS <= MS_HI, *errs, *tr.side, z3.Or(*[z3.And(c, P.to_int(v) == MS * 1000) for c, v in outs if v[0] != "none"]))
    g2 = z3.Solver()   # with a 1000x looser error bound the claim must become refutable (the bound matters)
    g2.add(MS >= 0, MS <= MS_HI * 1000, *tr.side, z3.Or(*[z3.And(c, P.to_int(v) != MS * 1000) for c, v in outs if v[0] != "none"]))
    if _solve(g, 60000)[0] != "sat" or _solve(g2, 60000)[0] != "sat":
        return {"verdict": "ERROR", "queries": 2, "detail": "vacuity guard failed"}
    s.add(z3.Or(*bad))
    res, m = _solve(s, float(os.environ.get("VK_QZ_TIMEOUT", "300")) * 1000 * 0.9)
    if res == "unsat":
        return {"verdict": "CONFIRMED", "queries": 3, "detail": "unsat: every ms in range decodes to exactly ms*1000 microseconds (2 guard queries sat)"}
    if res != "sat":
        return {"verdict": "UNKNOWN", "queries": 1, "detail": "solver: " + res}
    ms = m[MS].as_long()
    got = TimestampConverter.from_unix_millis(ms)
    want = _dt.datetime(1970, 1, 1, tzinfo=_dt.UTC) + _dt.timedelta(milliseconds=ms)
    return {"verdict": "REFUTED", "queries": 1, "reproduced": got != want, "call": f"ts_kernel_decode()  # ms={ms}",
            "detail": f"from_unix_millis({ms}) = {got!r}, expected {want!r} (over-approximate model: a non-reproducing model is inconclusive)"}
