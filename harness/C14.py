"""C14 - callbacks and invokes: stable identity, faithful outcome, deferred errors.

Real code: CallbackOperationExecutor (create_callback), context.Callback.result, InvokeOperationExecutor, over an
ARBITRARY reachable record (absent or any status the backend can hold for the type) with symbolic callback id,
payload, timeouts, function name, tenant.
"""
from __future__ import annotations

from vk import h
from harness.common import ASSUMPTIONS_COMMON, CALLBACK_STATUSES, INVOKE_STATUSES, NOW, OID, PID, ST, FakeState
from harness import ops
import aws_durable_execution_sdk_python.serdes as SER
from aws_durable_execution_sdk_python.config import Duration, InvokeConfig
from aws_durable_execution_sdk_python.exceptions import CallableRuntimeError, CallbackError
from aws_durable_execution_sdk_python.lambda_service import OperationAction as A
from aws_durable_execution_sdk_python.lambda_service import OperationSubType, OperationType
from aws_durable_execution_sdk_python.serdes import SerDes

if h.MODE == "sx":
    from vk.jsonmodel import JsonModel

    SER.json = JsonModel

ASSUMPTIONS = ASSUMPTIONS_COMMON + [
    "json inside serdes.py is the opaque model vk/jsonmodel.py (replays use the real json)",
    "strings (callback id, payload, names) len <= 3; timeouts any int >= 0",
    "the backend's response to a callback START carries a CallbackId chosen by the solver; to an invoke START a STARTED or already-terminal record",
]


class TagSerDes(SerDes):
    def __init__(self, tag="T"):
        self.tag = tag

    def serialize(self, value, ctx):
        return (self.tag, value)

    def deserialize(self, data, ctx):
        return ("decoded-" + self.tag if self.tag != "T" else "decoded", data)


@h.lemma(timeout=150, funcs=ops.CALLBACK_FUNCS, reach=("end", "new", "existing"),
         bounds="create_callback: record absent or any of 6 statuses, callback id / issued id any str(len<=3), timeouts any int>=0")
def callback_create(exists: bool, status_idx: int, cbid: str, issued: str, timeout_s: int, hb_s: int, has_err: bool):
    """
    pre: 0 <= status_idx < 6 and len(cbid) <= 3 and len(issued) <= 3 and 0 <= timeout_s and 0 <= hb_s
    post: True
    """
    rec = ops.callback_record(exists, status_idx, cbid, None, has_err)
    tr = ops.run_callback_create(rec, timeout_s, hb_s, issued)
    ups = tr.state.updates_for()
    h.check(tr.kind == "ret", "create_callback must never raise or suspend because of the callback's outcome")
    if exists:
        h.reach("existing")
        h.check(tr.value == cbid, "the recorded backend-issued id must be returned in every invocation")
        h.check(not ups, "existing callback must not be started again")
    else:
        h.reach("new")
        h.check(len(ups) == 1 and ups[0][0].action is A.START and ups[0][1], "exactly one synchronous START")
        u = ups[0][0]
        h.check(u.operation_type is OperationType.CALLBACK and u.sub_type is OperationSubType.CALLBACK)
        h.check(u.operation_id == OID and u.parent_id == PID and u.name == "nm")
        h.check(u.callback_options.timeout_seconds == timeout_s and u.callback_options.heartbeat_timeout_seconds == hb_s,
                "START must carry the configured timeouts")
        h.check(tr.value == issued, "the id must be read from the backend's response")
    h.end()


@h.lemma(timeout=150, funcs=ops.CALLBACK_FUNCS, reach=("end", "payload", "error", "suspend"),
         bounds="Callback.result(): record absent or any of 6 statuses, payload None or any str(len<=3), error absent / message None,'',text; serdes none or custom")
def callback_result(exists: bool, status_idx: int, has_payload: bool, payload: str, has_err: bool, msg_idx: int, custom: bool):
    """
    pre: 0 <= status_idx < 6 and len(payload) <= 3 and 0 <= msg_idx < 3
    post: True
    """
    err_msg = [None, "", "why"][msg_idx]
    rec = ops.callback_record(exists, status_idx, "cb", payload if has_payload else None, has_err, err_msg)
    st = FakeState(rec)
    tr = ops.run_callback_result(st, "cb", TagSerDes() if custom else None)
    h.check(not st.log, "result() must not write")
    if not exists:
        h.check(tr.kind == "raise" and isinstance(tr.exc, CallbackError))
    else:
        status = CALLBACK_STATUSES[status_idx]
        if status is ST.STARTED:
            h.reach("suspend")
            h.check(tr.kind == "suspend" and tr.ts is None, "outstanding callback must suspend (indefinitely)")
        elif status is ST.SUCCEEDED:
            h.reach("payload")
            if not has_payload:
                h.check(tr.kind == "ret" and tr.value is None)
            elif custom:
                h.check(tr.kind == "ret" and tr.value == ("decoded", payload), "configured serdes must decode the payload")
            else:
                h.check(tr.kind == "ret" and tr.value == payload, "delivered payload must be returned exactly")
        else:
            h.reach("error")
            h.check(tr.kind == "raise" and isinstance(tr.exc, CallbackError), "failure/timeout/cancel/stop must raise CallbackError")
            h.check(tr.exc.args[0] == (err_msg if (has_err and err_msg) else "Callback failed"))
            h.check(tr.exc.callback_id == "cb")
    h.end()


@h.lemma(timeout=150, funcs=ops.CALLBACK_FUNCS, reach=("end",),
         bounds="two invocations: create (absent -> START -> issued id) then create again against the backend's record in any later status")
def callback_identity_chain(issued: str, later_status: int, timeout_s: int):
    """
    pre: len(issued) <= 3 and 0 <= later_status < 6 and 0 <= timeout_s
    post: True
    """
    tr1 = ops.run_callback_create(None, timeout_s, 0, issued)
    h.check(tr1.kind == "ret" and tr1.value == issued)
    rec1 = tr1.state.ops[OID]
    h.check(rec1.status is ST.STARTED and rec1.callback_details.callback_id == issued)
    rec2 = ops.callback_record(True, later_status, rec1.callback_details.callback_id, "p", later_status >= 2)
    tr2 = ops.run_callback_create(rec2, timeout_s, 0, "another-id")
    h.check(tr2.kind == "ret" and tr2.value == issued and not tr2.state.log, "same id in every invocation, nothing re-sent")
    h.end()


@h.lemma(timeout=200, funcs=ops.INVOKE_FUNCS, reach=("end", "new", "suspend", "result", "error", "immediate"),
         bounds="invoke: record absent or any of 5 statuses; payload a symbolic int / dict with it; timeout any int>=0; tenant None or str(len<=3); "
                "START response STARTED or already terminal; result payload None or encoded int; error present/absent")
def invoke_all(exists: bool, status_idx: int, pv: int, as_dict: bool, timeout_s: int, has_tenant: bool, tenant: str, start_status_idx: int,
               has_result: bool, rv: int, has_err: bool, has_details: bool):
    """
    pre: 0 <= status_idx < 5 and 0 <= timeout_s and len(tenant) <= 3 and 0 <= start_status_idx < 5
    post: True
    """
    payload_value = {"n": pv} if as_dict else pv
    rpayload = SER.DEFAULT_JSON_SERDES.serialize(rv, None) if has_result else None
    rec = ops.invoke_record(exists, status_idx, rpayload, has_err, has_details)
    tr = ops.run_invoke(rec, payload_value, timeout_s, tenant if has_tenant else None, INVOKE_STATUSES[start_status_idx])
    ups = tr.state.updates_for()
    if exists:
        h.check(not ups, "an existing invoke must not be started again")
        status = INVOKE_STATUSES[status_idx]
    else:
        h.reach("new")
        h.check(len(ups) == 1 and ups[0][0].action is A.START and ups[0][1], "exactly one synchronous START")
        u = ups[0][0]
        h.check(u.operation_type is OperationType.CHAINED_INVOKE and u.operation_id == OID and u.parent_id == PID and u.name == "nm")
        h.check(SER.DEFAULT_JSON_SERDES.deserialize(u.payload, None) == payload_value, "START must carry the serialized payload")
        h.check(u.chained_invoke_options.function_name == "fn-name", "target function")
        h.check(u.chained_invoke_options.tenant_id == (tenant if has_tenant else None), "tenant")
        status = INVOKE_STATUSES[start_status_idx]
        if status is not ST.STARTED:
            h.reach("immediate")
    if status is ST.STARTED:
        h.reach("suspend")
        h.check(tr.kind == "suspend", "outstanding invoke must suspend")
        h.check(tr.ts == NOW + timeout_s, "suspension bounded by the configured timeout")
    elif status is ST.SUCCEEDED:
        h.reach("result")
        want = rv if (exists and has_result and has_details) else None
        h.check(tr.kind == "ret" and tr.value == want and (want is None or isinstance(tr.value, int)), "deserialized result must be returned")
    else:
        h.reach("error")
        h.check(tr.kind == "raise" and isinstance(tr.exc, CallableRuntimeError), "failed/timed-out/stopped invoke must raise the recorded error")
        if exists and has_err and has_details:
            h.check(tr.exc.message == "inv-msg" and tr.exc.error_type == "InvType")
    h.end()


@h.lemma(timeout=120, funcs=ops.INVOKE_FUNCS, reach=("end", "empty_text"),
         bounds="invoke with custom payload/result serdes: START payload produced by serdes_payload; a recorded result text of ANY content (str, len<=2, "
                "including the empty string - a valid encoding for a raw-text serializer) is handed to serdes_result")
def invoke_custom_serdes(exists: bool, rv: int, r: str):
    """
    pre: len(r) <= 2
    post: True
    """
    rec = ops.invoke_record(exists, 1, r, False) if exists else None
    st = FakeState(rec)
    from aws_durable_execution_sdk_python.operation.invoke import InvokeOperationExecutor
    from harness.common import IDENT, run

    cfg = InvokeConfig(serdes_payload=TagSerDes("P"), serdes_result=TagSerDes("R"))
    tr = run(InvokeOperationExecutor("f", rv, st, IDENT, cfg).process, st)
    if exists:
        if len(r) == 0:
            h.reach("empty_text")
        h.check(tr.kind == "ret" and tr.value == ("decoded-R", r), "a recorded result must be decoded by serdes_result, whatever its text")
    else:
        h.check(st.updates_for()[0][0].payload == ("P", rv) and tr.kind == "suspend", "payload must be encoded by serdes_payload")
    h.end()
