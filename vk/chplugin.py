"""CrossHair adaptation: formatting a symbolic int/float yields a fresh unconstrained symbolic string.

CrossHair realises (concretises) a symbolic number when it is formatted, which makes every path that
builds a log/exception message with it non-exhaustive.  Returning an arbitrary string instead is a sound
over-approximation: any text the real formatting could produce is covered; a spurious counterexample
that depends on the text is filtered by the concrete replay (which uses real formatting).
"""
import itertools

_installed = False


def install():
    global _installed
    if _installed:
        return
    _installed = True
    from crosshair import core
    from crosshair.core import NoTracing
    from crosshair.libimpl import builtinslib as B

    ctr = itertools.count()
    orig = B._format

    def _format(obj, format_spec=""):
        with NoTracing():
            sym = isinstance(obj, (B.SymbolicInt, B.SymbolicFloat))
        if sym:
            with NoTracing():
                return B.LazyIntSymbolicStr(f"fmtstr{next(ctr)}")
        return orig(obj, format_spec)

    core._PATCH_REGISTRATIONS[format] = _format


install()
