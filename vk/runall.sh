#!/bin/sh
# run every claimed check (quick by default) sequentially; prints one line per property
cd /verif || exit 2
TIER="${1:-quick}"
for P in $(python3 -c "import json; print(' '.join(c['property_id'] for c in json.load(open('MANIFEST.json'))['checks']))"); do
  s=$(date +%s)
  ./check "$P" "$TIER" > "/tmp/runall_$P.log" 2>&1; rc=$?
  e=$(date +%s)
  echo "$P rc=$rc $((e-s))s $(grep -c VIOLATION /tmp/runall_$P.log) viol $(grep -c INCONCLUSIVE /tmp/runall_$P.log) inconcl"
done
