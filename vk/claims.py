# Executed by vk/mkmanifest.py: one claim(...) per property that has a harness.
claim("C19",
      "Bounded symbolic proof by induction over atomic actions: for every lock state satisfying the representation invariant "
      "(queue <= 4, 5 in thorough) each real action (acquire/release/__exit__/increment) preserves the invariant, appends arrivals at the "
      "tail, wakes exactly the next waiter, and after a break fails every current and future acquirer; scenario lemmas run the real acquire "
      "behind <= 3 solver-controlled predecessors. All paths exhausted by CrossHair/z3; holds for histories of any length if the invariant is right.",
      "threading.Event/Lock are flag stubs; atomicity of locked blocks relies on the inner Lock (AST side-condition checked); "
      "bytecode-level preemption inside a locked block and real OS scheduling are outside the claim",
      "CrossHair symbolic execution (z3) of real OrderedLock/OrderedCounter code: inductive action lemmas + scheduled scenarios",
      "DESIGN.md §3 C19")
claim("C12",
      "Bounded symbolic execution of the real step executor from an ARBITRARY reachable step record (all 5 statuses x any attempt >= 0 x payload/error/"
      "timestamp options x both semantics x function outcome x arbitrary strategy decision/delay): strategy sees attempt+1, RETRY is synchronous with "
      "delay max(d,1) and precedes a timed suspension of that delay, decline => FAIL then raise, PENDING/terminal never re-attempted; real "
      "create_retry_strategy cut-off (retry => attempts < max). Inductive in the history: every history leaves one such record.",
      "backend contract + FakeState + stub clock/logging (see evidence assumptions); retry count bound m-1 follows by induction over invocations (stated); "
      "delay kernel floats are decided by a direct z3 query over reals, not IEEE doubles",
      "CrossHair symbolic execution (z3) of real StepOperationExecutor/create_retry_strategy; z3 query on the delay expression translated from the AST",
      "DESIGN.md §3 C12")
claim("C01",
      "Three solver-checked links of an induction over invocations: (L1) every terminal record short-circuits every real executor (no user function, no update, "
      "recorded value/error returned) for step, wait, invoke, callback, wait_for_condition, child (+ReplayChildren exception); (L2) a value/final error leaves "
      "process() only after a synchronous SUCCEED/FAIL; (L3) real fetch_paginated_operations maps every id to its last record under every page split "
      "(<= 3 records quick / 4 thorough, empty pages included). All paths exhausted per lemma.",
      "composition of the links (and identity of ids across invocations, C08) is an argument in DESIGN.md, not a query; backend contract and FakeState are stubs",
      "CrossHair symbolic execution (z3) of the real operation executors and fetch_paginated_operations over arbitrary records / page splits",
      "DESIGN.md §3 C01")
claim("C15",
      "Bounded symbolic round-trip of the real default codec: values built from solver-chosen shapes (depth <= 2 fully, depth-3 spine, width <= 2) with symbolic "
      "int/bool/str/float leaves, envelope look-alikes with every real tag, BatchResult items, non-string keys (must be rejected), extended leaf types at "
      "symbolic positions; oracle is type-exact (floats sign-exact) equality at every level or a serialization error. All paths exhausted. History independence: "
      "two equal-but-distinct scalars from a pool of 11 serialized one after the other in one process (codec run untraced on the solver-chosen concrete pair, "
      "because CrossHair bypasses functools.lru_cache).",
      "json is an opaque model of CPython's conversion table; serdes `match` statements lowered for tracing; stdlib conversions (base64/uuid/Decimal/isoformat) trusted; "
      "replays use the real json and the unmodified module",
      "CrossHair symbolic execution (z3) of real serdes.serialize/deserialize over solver-built nested values",
      "DESIGN.md §3 C15")
claim("C20",
      "Bounded symbolic round-trip of every wire codec: OperationUpdate (all types x actions x sub-types; optional strings present/absent/empty; every option "
      "object with arbitrary ints), all 14 create_* factories (wire dict must carry id/parent/name/payload/error/options), Operation in dict and JSON form (all "
      "enums, 4 aware timestamps incl. non-UTC offsets, each details class with symbolic fields), invocation input/output. The millisecond timestamp kernels "
      "are translated from the AST and decided by z3 for EVERY timestamp 1970-2100 (encoder bit-exact QF_BVFP; decoder with the standard relative-error model).",
      "equality modulo the normalisation the statement allows ('' == absent, {}-encoded object == absent); datetime arithmetic inside CPython is trusted "
      "(total_seconds = correctly rounded us/1e6; fromtimestamp = modf, *1e6, round-half-even); strings len <= 2",
      "CrossHair symbolic execution (z3) of the real to_dict/from_dict/to_json_dict/from_json_dict pairs + z3 FP/real queries generated from TimestampConverter's AST",
      "DESIGN.md §3 C20")
claim("C13",
      "Bounded symbolic execution of the real wait_for_condition executor from an ARBITRARY reachable record (6 situations x any attempt x payload options x 3 "
      "serializers x strategy decision/delay, decision objects built directly) with states carrying a symbolic int: first poll gets the initial state, later polls exactly the previous state "
      "(type-exact, restored by the configured serdes), poll number = attempt+1, stop => synchronous SUCCEED + return, continue => synchronous RETRY with "
      "delay max(d,1) + timed suspension, terminal/PENDING never polled; two polls chained through the backend contract; real create_wait_strategy kernel.",
      "backend contract, FakeState, json model, stub clock (evidence assumptions); custom serializers rendering a state as '' are outside the claim",
      "CrossHair symbolic execution (z3) of real WaitForConditionOperationExecutor over arbitrary records, chained polls",
      "DESIGN.md §3 C13")
claim("C14",
      "Bounded symbolic execution of real CallbackOperationExecutor, Callback.result and InvokeOperationExecutor over absent/every-status records with symbolic "
      "ids, payloads, timeouts, tenant: create returns the backend-issued id in every invocation and never raises on outcome; absent => exactly one synchronous "
      "START with the configured options; result()/invoke suspend while outstanding, then return the delivered payload / deserialized result or raise the "
      "recorded error. All paths exhausted.",
      "backend contract (callback id in the START response; invoke START may return an already-terminal record), FakeState, json model; strings len <= 3",
      "CrossHair symbolic execution (z3) of the real callback/invoke executors over arbitrary records",
      "DESIGN.md §3 C14")
claim("C04",
      "Inductive lemma, all paths exhausted: for EVERY record an invocation can find for an at-most-once step (absent/STARTED/PENDING/READY x any attempt x "
      "details present/absent) and every strategy decision, the real executor never enters the function on STARTED (routes through the strategy with attempt+1) "
      "and enters it only after a synchronous START of this run left the record STARTED; plus a two-invocation crash/replay chain and a lemma that an "
      "unreflected START blocks entry. A crash anywhere between 'start recorded' and 'outcome recorded' leaves exactly such a record.",
      "backend contract (START keeps the attempt count; PENDING->READY by timer), FakeState; composition over invocations is an induction argument",
      "CrossHair symbolic execution (z3) of real StepOperationExecutor with AT_MOST_ONCE_PER_RETRY over arbitrary records",
      "DESIGN.md §3 C04")
claim("C11",
      "For every handler kind and EVERY reachable record (the history any sequence of earlier invocations/crashes can leave), the updates emitted by one real "
      "process() are accepted by the lifecycle automaton started in that record's state (one START per attempt, START before RETRY/SUCCEED/FAIL, nothing "
      "after/for terminal) and are well-formed (type, sub-type, id, parent link, name); a context's START precedes its body. All paths exhausted.",
      "the automaton is the specification; FIFO delivery is C05; the execution-level result record is covered by C18/C16; user code deterministic",
      "CrossHair symbolic execution (z3) of all real operation executors against a lifecycle automaton oracle",
      "DESIGN.md §3 C11")
claim("C05",
      "Bounded symbolic model checking of the REAL pipeline code (create_checkpoint, checkpoint_batches_forever, _collect_checkpoint_batch, CompletionEvent) "
      "lowered to coroutines and interleaved by a scheduler whose choices are solver variables: 3 producers (4 thorough) with symbolic sizes vs symbolic "
      "byte/count limits, sync/async/empty-checkpoint patterns, batching window on/off, solver-chosen successor at blocking points, one solver-chosen "
      "preemption at any shared-state operation, and a failing API call: delivered sequence == hand-over sequence, token chain, limits, every sync "
      "caller released (success after apply, or the failure); an update still queued when its parent context's completion is handed over is delivered "
      "before its caller is released (C05_orphan, shared with C03). All paths exhausted per lemma.",
      "queue/Event/Lock/clock/service client are stubs (evidence assumptions); preemption granularity = operations on shared state; context bound K=1 (quick); "
      "producers beyond 3-4, K>=2 and real OS scheduling are outside the claim",
      "CrossHair symbolic execution (z3) of coroutine-lowered real batcher code under a solver-driven context-bounded scheduler",
      "DESIGN.md §2.3, §3 C05")
claim("C06",
      "Same world as C05 with a failing API call at a solver-chosen position: every sync caller in batch / overflow / main queue is released with the "
      "failure (never with success unless applied, never blocked), failure flag set, no further API call, later callers (sync and async) fail at once; "
      "one solver-chosen preemption anywhere in producer or consumer (check-then-put window, drain loop, event set before error stored; two preemptions in the "
      "thorough tier); a second caller arriving at any scheduling step of the failure path. Executor world: a branch woken with the failure, and the state refresh of a "
      "timer-driven resubmission failing on the timer thread, must end execute() with the failure, never hang.",
      "as C05; error classification is C18",
      "CrossHair symbolic execution (z3) of coroutine-lowered real batcher code under a solver-driven scheduler with fault injection",
      "DESIGN.md §3 C06")
claim("C03",
      "W1: in the pipeline world a synchronous create_checkpoint returns (and its waiter is woken without error) only after the API call carrying its update "
      "returned and every page of the response was merged into state.operations - for every batch boundary, inline/paginated response, failing call 1/2/none "
      "and one solver-chosen preemption; W1b: the same for a step update that is queued, in flight or not yet handed over when the completion of its parent "
      "context is handed over by another thread (it is either delivered before its caller returns, or rejected as orphaned - never released unrecorded). W2: for every handler kind and every reachable record, process() leaves by return/final error/suspension only when "
      "the justifying record (terminal, START of wait/invoke/callback, RETRY) was handed over synchronously in this run or pre-existed.",
      "as C05 for W1; FakeState + backend contract for W2; wrapper-level W3 (oversized final result) is decided under C16/C18",
      "CrossHair symbolic execution (z3): coroutine-lowered real batcher under a solver-driven scheduler + real operation executors over arbitrary records",
      "DESIGN.md §3 C03")
claim("C08",
      "z3 string query generated from the AST of _create_step_id_for_logical_step: the pre-image string is injective in (has_parent, parent, n) for equal-length hex "
      "parents (L<=8, 16 thorough); SX over the real DurableContext: every solver-chosen program shape (<=3 ops of 6 kinds, nested children) yields Id = "
      "H(path), ParentId = enclosing context, distinct ids, and an update-free replay; real _execute_item_in_child_context for 3 branches in all 6 orders + a "
      "resubmission: branch ids depend on the index only, counter untouched, same inner ids when re-run; every update kind keeps its parent link; counter "
      "thread-safety lemma shared with C19.",
      "blake2b collision-freedom assumed; real ids have L=64 (outside the solver bound; encoding is length-parametric); user code sharing a context between threads is outside the claim",
      "z3 sequence/regex query from the AST + CrossHair symbolic execution of the real context/executor id code",
      "DESIGN.md §3 C08")
claim("C02",
      "Composed symbolic runs of the REAL wrapper/context/executors/state/checkpoint thread against a wire-level backend model: 4 deterministic workflow templates "
      "with symbolic step values are run twice (baseline vs. a variant with a process crash at a solver-chosen invocation x API call x before/after apply, "
      "paginated history, consumer run-ahead); at every durable-call position all invocations of both runs observe the same value (type-exact) or the same "
      "exception class+message, and both runs end with the same final output. Includes a >256KB child (ReplayChildren) template. All paths exhausted per lemma.",
      "sequential workflows (map/parallel replay is covered in C09/C16 lemmas); <= 6 invocations; one crash per execution; json is the opaque model; backend model "
      "and its timers are stubs; open finding KF-C02-wfc-first-failure-raises-original excluded (reported as KNOWN-FINDING)",
      "CrossHair symbolic execution (z3) of the real durable_execution wrapper + coroutine-lowered checkpoint thread over a stateful backend model, differential baseline/variant",
      "DESIGN.md §2.4, §3 C02")
claim("C18",
      "Composed symbolic runs of the real wrapper: handler returns JSON / non-serializable / oversized (limit+d for any d) values or raises one of 12 exception "
      "classes at top level, after a step, or inside a child; 4 exception classes x 9 constructor-argument shapes (none, int, tuple, bytes, None, lone surrogate, ...) "
      "x 4 places under the REAL size accounting with outcome and wire error objects type-checked; the checkpoint API fails at call 1..3 with 4 error shapes (any 4xx!=429 / any 5xx / invalid token / "
      "non-boto) under consumer run-ahead 0..6 and immediate-wake races; malformed events; plus CheckpointError.from_exception against its documented rule with "
      "symbolic status/code/message. Oracle: exactly one well-formed outcome, raise only for retriable checkpoint / invocation errors / bad payload, checkpoint "
      "thread stopped and finished before the wrapper leaves. All paths exhausted.",
      "sequential handler (failures inside map/parallel branches: C06 executor lemmas); boto errors follow botocore's ClientError.response contract; json model",
      "CrossHair symbolic execution (z3) of the real wrapper + LambdaClient + coroutine-lowered checkpoint thread with fault injection",
      "DESIGN.md §3 C18")
claim("C17",
      "Composed symbolic runs of the real wrapper/context/logger/state: a 6-operation program with 12 log sites (top level, inside steps, inside a child context) is "
      "interrupted at the wait/callback suspension and optionally by a process crash after API call 1..5 of invocation 1..2, S1 ok/failed-and-caught, S3 "
      "immediate/retried, history page size none/1/2/3; for EVERY log call executed by EVERY invocation: emitted <=> no previously-completed operation lies after "
      "it in program order; first invocation emits all; records carry ARN / parentId / operationId / attempt. All paths exhausted.",
      "one template (sequential + child context + callback; map/parallel blocks are treated as units by the property and are exercised through the child-context "
      "mechanism they share); backend model; capturing logger via set_logger",
      "CrossHair symbolic execution (z3) of the real wrapper + Logger + track_replay over a stateful backend with crash/pagination injection",
      "DESIGN.md §3 C17")
claim("C16",
      "Symbolic sizes: the length of every serialized text is a solver variable (json model). Real ChildOperationExecutor: size > 262144 <=> summary (or '') + "
      "ReplayChildren, else full payload; replay re-traverses the body iff flagged, sends nothing, returns an equal value (also for a single map item / parallel "
      "branch through the real _execute_item_in_child_context). Real ConcurrentExecutor.replay over all 4^3 branch-record combinations x completion configs "
      "rebuilds items in order with recorded status/result/error and the policy-derived reason without running a body. Composed wrapper runs: final result "
      "or error of ANY size around the Lambda limit in BYTES (non-ASCII aware) is recorded as the execution's result (last, synchronous) before an empty-payload "
      "status; oversized child replayed with zero step re-executions and zero new records.",
      "json model (length symbolic; ensure_ascii=False texts may take up to 4 bytes/char); backend model; bounds: 3 branches, one oversized context per run",
      "CrossHair symbolic execution (z3) of the real child/executor/wrapper code with solver-chosen serialized sizes",
      "DESIGN.md §3 C16")
claim("C10",
      "Symbolic execution of the real orphan gate in create_checkpoint/_mark_orphans: (i) 4 forest shapes x every reachable sequence of 3 updates (4 thorough) over "
      "START/SUCCEED/FAIL/RETRY; (ii) a fully known forest (every first-seen order, 2-3 id namings) in which one or two contexts complete and any operation then "
      "sends any update: an update is rejected with OrphanedChildException and not enqueued iff an ancestor context's completion was handed over - for existing "
      "and for first-time operations; (iii) replay() runs no branch that was unfinished at completion. Executor-level stopping of a live orphan branch is in the "
      "executor world lemmas.",
      "abstract updates (id/parent/type/action); histories restricted to reachable ones (an operation is created after its context's START); sets iterate in "
      "insertion order under CrossHair and hash order in CPython - both covered by varying namings/orders, replays try all",
      "CrossHair symbolic execution (z3) of the real create_checkpoint orphan gate over solver-chosen forests and update sequences",
      "DESIGN.md §3 C10")
claim("C09",
      "(a) SX over real ExecutionCounters/BatchResult: for every (total<=5, successes, failures) and symbolic policy the executor stops exactly when the policy is "
      "decided and the reported reason is truthful for the items; (b) z3 QF_BVFP query generated from the AST of the three percentage tests vs the exact rational "
      "comparison (f<=t<=128, pct 0..100); (c) executor world: the REAL execute/_on_task_complete/_create_result/child_handler with a modelled thread pool: 0..2 "
      "branches (3 thorough) x behaviours (succeed/fail/never finish/park) x policy x max_concurrency x completion order, done-callbacks coroutine-lowered and "
      "preempted at a solver-chosen point: released exactly when decided, pool size = limit, one item per input in order carrying the branch's own result/error, "
      "unfinished => started, reason consistent, zero items => empty result; (d) real replay() rebuilds the same batch result.",
      "thread pool/futures/timer thread are models of the concurrent.futures contract; branch bodies run atomically when they finish; integer percentages; "
      "policy semantics as documented in ExecutionCounters (no tolerance configured = fail fast)",
      "CrossHair symbolic execution (z3) of the real executor/counters code under a solver-driven pool model + z3 FP query from the AST",
      "DESIGN.md §3 C09")
claim("C07",
      "(a) SX per handler: every suspension of step / wait_for_condition / wait / invoke / callback.result over every reachable record is preceded by a SYNCHRONOUS "
      "record that lets the backend wake the execution (or such a record pre-exists) and a timed suspension carries the recorded delay; (b) executor world: the real "
      "executor with branches that succeed / fail / park / park until t / resume after a park / never finish, solver-chosen completion order and timer activity: "
      "SuspendExecution only when no branch is running or waiting to start, earliest parked timestamp, a synchronous state refresh before every resubmission, no "
      "deadlock unless a branch itself never finishes, no livelock within 40 actions; one solver-chosen submit() whose task has finished before add_done_callback "
      "(callback on the submitting/timer thread, non-reentrant TimerScheduler lock modelled); the resubmission's refresh checkpoint failing on the timer thread; "
      "(c) composed executions reach SUCCEEDED/FAILED within 6 invocations under every crash point (lemmas shared with C02); (d) a caller racing or arriving during "
      "the failing consumer's drain is never left blocked (pipeline-world lemmas shared with C06).",
      "liveness is bounded safety (action/invocation bounds); unbounded-time liveness and OS scheduler fairness are outside the claim; pool/timer thread modelled",
      "CrossHair symbolic execution (z3) of the real executors, ConcurrentExecutor/TimerScheduler under a solver-driven pool model, and composed wrapper runs",
      "DESIGN.md §3 C07")
