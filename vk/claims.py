# Executed by vk/mkmanifest.py: one claim(...) per property that has a harness.
claim("C19",
      "Bounded symbolic proof by induction over atomic actions: for every lock state satisfying the representation invariant "
      "(queue <= 4, 5 in thorough) each real action (acquire/release/__exit__/increment) preserves the invariant, appends arrivals at the "
      "tail, wakes exactly the next waiter, and after a break fails every current and future acquirer; scenario lemmas run the real acquire "
      "behind <= 3 solver-controlled predecessors. All paths exhausted by CrossHair/z3; holds for histories of any length if the invariant is right.",
      "threading.Event/Lock are flag stubs; atomicity of locked blocks relies on the inner Lock (AST side-condition checked); "
      "bytecode-level preemption inside a locked block and real OS scheduling are outside the claim",
      "CrossHair symbolic execution (z3) of real OrderedLock/OrderedCounter code: inductive action lemmas + scheduled scenarios",
      "DESIGN.md §3 C19")
