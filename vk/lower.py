"""Lower `match` statements of an SDK module to if/isinstance chains, in memory, from /repo's source.

CrossHair's C tracer cannot intercept MATCH_CLASS, so `case int():` on a symbolic value takes the
wrong branch.  `lower_in_place(module)` re-reads the module's source on every run, rewrites each
`match` into the equivalent chain (value / singleton / class-without-subpattern / or / wildcard /
guard), compiles it and swaps the code objects of the module's functions and methods, so every
existing reference (instances, names imported elsewhere) runs the lowered code.  Any pattern kind
outside this list raises: the harness then fails with a harness error, never with a verdict.
Concrete replays never call this (vk.h.MODE == "replay").
"""
from __future__ import annotations

import ast
import inspect
import types


class Lower(ast.NodeTransformer):
    def __init__(self):
        self.n = 0
        self.count = 0

    def test(self, pat, subj):
        if isinstance(pat, ast.MatchValue):
            return ast.Compare(subj, [ast.Eq()], [pat.value])
        if isinstance(pat, ast.MatchSingleton):
            return ast.Compare(subj, [ast.Is()], [ast.Constant(pat.value)])
        if isinstance(pat, ast.MatchClass) and not pat.patterns and not pat.kwd_patterns:
            return ast.Call(ast.Name("isinstance", ast.Load()), [subj, pat.cls], [])
        if isinstance(pat, ast.MatchOr):
            return ast.BoolOp(ast.Or(), [self.test(p, subj) for p in pat.patterns])
        if isinstance(pat, ast.MatchAs) and pat.pattern is None and pat.name is None:
            return ast.Constant(True)
        raise NotImplementedError("unsupported match pattern: " + ast.dump(pat))

    def visit_Match(self, node):
        self.generic_visit(node)
        self.n += 1
        self.count += 1
        name = f"_vk_m{self.n}"
        assign = ast.Assign([ast.Name(name, ast.Store())], node.subject)
        head = cur = None
        for case in node.cases:
            t = self.test(case.pattern, ast.Name(name, ast.Load()))
            if case.guard is not None:
                t = ast.BoolOp(ast.And(), [t, case.guard])
            new = ast.If(t, case.body, [])
            if head is None:
                head = cur = new
            else:
                cur.orelse = [new]
                cur = new
        out = [ast.copy_location(assign, node), ast.copy_location(head, node)]
        for o in out:
            ast.fix_missing_locations(o)
        return out


def _swap(real, new):
    if isinstance(real, (staticmethod, classmethod)):
        real, new = real.__func__, new.__func__
    if isinstance(real, property):
        for a in ("fget", "fset", "fdel"):
            if getattr(real, a) is not None:
                _swap(getattr(real, a), getattr(new, a))
        return 0
    if isinstance(real, types.FunctionType) and isinstance(new, types.FunctionType):
        if real.__code__.co_freevars == new.__code__.co_freevars:
            real.__code__ = new.__code__
            return 1
    return 0


def lower_in_place(module) -> dict:
    """Returns {"matches": n_lowered, "functions": n_swapped}."""
    if getattr(module, "__vk_lowered__", None):
        return module.__vk_lowered__
    src = inspect.getsource(module)
    lw = Lower()
    tree = lw.visit(ast.parse(src))
    ast.fix_missing_locations(tree)
    code = compile(tree, module.__file__, "exec")
    ns = dict(module.__dict__)
    exec(code, ns)  # noqa: S102
    swapped = 0
    for name, new in ns.items():
        real = module.__dict__.get(name)
        if real is None or real is new:
            continue
        if isinstance(real, types.FunctionType) and getattr(real, "__module__", None) == module.__name__:
            swapped += _swap(real, new)
        elif isinstance(real, type) and getattr(real, "__module__", None) == module.__name__ and isinstance(new, type):
            for m, newm in vars(new).items():
                if m in vars(real):
                    swapped += _swap(vars(real)[m], newm)
    info = {"matches": lw.count, "functions": swapped}
    module.__vk_lowered__ = info
    return info
