"""Translate small Python expressions/functions of the SDK (read from /repo on every run) into z3 terms.

Used where CrossHair's value model is not exact (IEEE-754 doubles) or does not converge (pow / ceil /
long strings).  The translator is deliberately tiny: it walks the `ast` of ONE function, supports
straight-line code (assignments, if/return, conditional expressions) over a typed symbolic domain and
raises `Untranslatable` on anything else - the calling lemma then reports a harness error, never a verdict.

Domain (tagged values):
   ("int",  z3 Int)            Python int, mathematical integers
   ("bvint", z3 BitVec 64)     Python int known to be in [0, 2**63): used next to doubles
   ("fp",   z3 FP Float64)     Python float, IEEE double, RNE on every operation
   ("real", z3 Real)           Python float approximated by exact reals (stated in the lemma)
   ("bool", z3 Bool), ("none",), ("const", python object)
   ("us",   z3 BitVec 64)      datetime/timedelta as integer microseconds (see intrinsics)
"""
from __future__ import annotations

import ast
import inspect
import textwrap

import z3

F64 = z3.Float64()
RNE = z3.RNE()


class Untranslatable(Exception):
    pass


def fn_ast(fn) -> ast.FunctionDef:
    src = textwrap.dedent(inspect.getsource(fn))
    tree = ast.parse(src)
    node = tree.body[0]
    if not isinstance(node, ast.FunctionDef):
        raise Untranslatable("not a function")
    return node


def fpval(x):
    return ("fp", z3.FPVal(float(x), F64))


def to_fp(v):
    k = v[0]
    if k == "fp":
        return v[1]
    if k == "bvint":
        return z3.fpSignedToFP(RNE, v[1], F64)
    if k == "const" and isinstance(v[1], (int, float)) and not isinstance(v[1], bool):
        return z3.FPVal(float(v[1]), F64)
    raise Untranslatable(f"cannot convert {k} to double")


def to_real(v):
    k = v[0]
    if k == "real":
        return v[1]
    if k == "int":
        return z3.ToReal(v[1])
    if k == "const" and isinstance(v[1], (int, float)) and not isinstance(v[1], bool):
        return z3.RealVal(repr(v[1]) if isinstance(v[1], float) else v[1])
    raise Untranslatable(f"cannot convert {k} to real")


def to_int(v):
    if v[0] == "int":
        return v[1]
    if v[0] == "const" and isinstance(v[1], int) and not isinstance(v[1], bool):
        return z3.IntVal(v[1])
    raise Untranslatable(f"cannot convert {v[0]} to int")


def to_bv(v):
    if v[0] in ("bvint", "us"):
        return v[1]
    if v[0] == "const" and isinstance(v[1], int) and not isinstance(v[1], bool):
        return z3.BitVecVal(v[1], 64)
    raise Untranslatable(f"cannot convert {v[0]} to bitvector int")


class Tr:
    """Expression translator. `env` maps names to tagged values; `intrinsics(tr, node)` may return a
    tagged value for calls/attributes it recognises (or None)."""

    def __init__(self, env, intrinsics=None, float_mode="fp"):
        self.env = dict(env)
        self.intr = intrinsics
        self.float_mode = float_mode  # "fp" (IEEE double) or "real"
        self.side = []  # side constraints (e.g. definitions of ceil results)
        self.n = 0

    def fresh(self, prefix, sort):
        self.n += 1
        return z3.Const(f"{prefix}!{self.n}", sort)

    # -- arithmetic helpers
    def _floatish(self, a, b):
        return a[0] in ("fp", "real") or b[0] in ("fp", "real") or any(
            v[0] == "const" and isinstance(v[1], float) for v in (a, b))

    def binop(self, op, a, b):
        if a[0] == "us" or b[0] == "us":
            x, y = to_bv(a), to_bv(b)
            if isinstance(op, ast.Sub):
                return ("us", x - y)
            if isinstance(op, ast.Add):
                return ("us", x + y)
            if isinstance(op, ast.FloorDiv):
                # operands constrained non-negative by the lemma: floor == unsigned division
                return ("bvint", z3.UDiv(x, y))
            raise Untranslatable("unsupported timedelta operation")
        if isinstance(op, ast.Div) or self._floatish(a, b):
            if self.float_mode == "fp":
                x, y = to_fp(a), to_fp(b)
                f = {ast.Add: z3.fpAdd, ast.Sub: z3.fpSub, ast.Mult: z3.fpMul, ast.Div: z3.fpDiv}.get(type(op))
                if f is None:
                    raise Untranslatable("unsupported float operator " + type(op).__name__)
                return ("fp", f(RNE, x, y))
            x, y = to_real(a), to_real(b)
            if isinstance(op, ast.Add):
                return ("real", x + y)
            if isinstance(op, ast.Sub):
                return ("real", x - y)
            if isinstance(op, ast.Mult):
                return ("real", x * y)
            if isinstance(op, ast.Div):
                return ("real", x / y)
            raise Untranslatable("unsupported real operator " + type(op).__name__)
        if a[0] == "bvint" or b[0] == "bvint":
            x, y = to_bv(a), to_bv(b)
            if isinstance(op, ast.Add):
                return ("bvint", x + y)
            if isinstance(op, ast.Sub):
                return ("bvint", x - y)
            if isinstance(op, ast.Mult):
                return ("bvint", x * y)
            if isinstance(op, ast.FloorDiv):
                return ("bvint", z3.UDiv(x, y))
            raise Untranslatable("unsupported bv-int operator")
        x, y = to_int(a), to_int(b)
        if isinstance(op, ast.Add):
            return ("int", x + y)
        if isinstance(op, ast.Sub):
            return ("int", x - y)
        if isinstance(op, ast.Mult):
            return ("int", x * y)
        if isinstance(op, ast.FloorDiv):
            return ("int", x / y)
        raise Untranslatable("unsupported int operator " + type(op).__name__)

    def compare(self, op, a, b):
        if self._floatish(a, b):
            if self.float_mode == "fp":
                x, y = to_fp(a), to_fp(b)
                table = {ast.Gt: z3.fpGT, ast.GtE: z3.fpGEQ, ast.Lt: z3.fpLT, ast.LtE: z3.fpLEQ, ast.Eq: z3.fpEQ}
                if type(op) in table:
                    return ("bool", table[type(op)](x, y))
                if isinstance(op, ast.NotEq):
                    return ("bool", z3.Not(z3.fpEQ(x, y)))
                raise Untranslatable("unsupported float comparison")
            x, y = to_real(a), to_real(b)
        elif a[0] in ("bvint", "us") or b[0] in ("bvint", "us"):
            x, y = to_bv(a), to_bv(b)
            table = {ast.Gt: z3.UGT, ast.GtE: z3.UGE, ast.Lt: z3.ULT, ast.LtE: z3.ULE}
            if type(op) in table:
                return ("bool", table[type(op)](x, y))
            if isinstance(op, ast.Eq):
                return ("bool", x == y)
            if isinstance(op, ast.NotEq):
                return ("bool", x != y)
            raise Untranslatable("unsupported bv comparison")
        else:
            x, y = to_int(a), to_int(b)
        table = {ast.Gt: lambda p, q: p > q, ast.GtE: lambda p, q: p >= q, ast.Lt: lambda p, q: p < q,
                 ast.LtE: lambda p, q: p <= q, ast.Eq: lambda p, q: p == q, ast.NotEq: lambda p, q: p != q}
        if type(op) not in table:
            raise Untranslatable("unsupported comparison")
        return ("bool", table[type(op)](x, y))

    def truth(self, v):
        if v[0] == "bool":
            return v[1]
        if v[0] == "none":
            return z3.BoolVal(False)
        if v[0] == "const":
            return z3.BoolVal(bool(v[1]))
        if v[0] == "us":
            return z3.BoolVal(True)  # datetime objects are always truthy
        raise Untranslatable(f"truth value of {v[0]}")

    # -- expressions
    def expr(self, node):
        if self.intr is not None:
            r = self.intr(self, node)
            if r is not None:
                return r
        if isinstance(node, ast.Constant):
            if node.value is None:
                return ("none",)
            return ("const", node.value)
        if isinstance(node, ast.Name):
            if node.id in self.env:
                return self.env[node.id]
            raise Untranslatable("unknown name " + node.id)
        if isinstance(node, ast.BinOp):
            return self.binop(node.op, self.expr(node.left), self.expr(node.right))
        if isinstance(node, ast.UnaryOp) and isinstance(node.op, ast.Not):
            return ("bool", z3.Not(self.truth(self.expr(node.operand))))
        if isinstance(node, ast.Compare) and len(node.ops) == 1:
            a, b = self.expr(node.left), self.expr(node.comparators[0])
            if isinstance(node.ops[0], (ast.Is, ast.IsNot)):
                isnone = (a[0] == "none") == (b[0] == "none") if (a[0] == "none" or b[0] == "none") else None
                if isnone is None:
                    raise Untranslatable("`is` on non-None")
                return ("bool", z3.BoolVal(isnone if isinstance(node.ops[0], ast.Is) else not isnone))
            return self.compare(node.ops[0], a, b)
        if isinstance(node, ast.BoolOp):
            vals = [self.truth(self.expr(v)) for v in node.values]
            return ("bool", z3.And(*vals) if isinstance(node.op, ast.And) else z3.Or(*vals))
        if isinstance(node, ast.IfExp):
            c = self.truth(self.expr(node.test))
            a, b = self.expr(node.body), self.expr(node.orelse)
            return self.ite(c, a, b)
        if isinstance(node, ast.Call) and isinstance(node.func, ast.Name):
            fn = node.func.id
            args = [self.expr(x) for x in node.args]
            if fn == "int" and len(args) == 1:
                v = args[0]
                if v[0] == "fp":
                    return ("bvint", z3.fpToSBV(z3.RTZ(), v[1], z3.BitVecSort(64)))
                if v[0] in ("int", "bvint"):
                    return v
                raise Untranslatable("int() of " + v[0])
            if fn == "round" and len(args) == 1:
                # round(x) with one argument: nearest integer, ties to even (float.__round__)
                v = args[0]
                if v[0] == "fp":
                    return ("bvint", z3.fpToSBV(z3.RNE(), v[1], z3.BitVecSort(64)))
                if v[0] in ("int", "bvint"):
                    return v
                raise Untranslatable("round() of " + v[0])
            if fn in ("min", "max") and len(args) == 2:
                lt = self.compare(ast.Lt(), args[1], args[0])[1] if fn == "min" else self.compare(ast.Gt(), args[1], args[0])[1]
                return self.ite(lt, args[1], args[0])
        if (isinstance(node, ast.Call) and isinstance(node.func, ast.Attribute) and isinstance(node.func.value, ast.Name)
                and node.func.value.id == "math" and node.func.attr in ("floor", "ceil", "trunc") and len(node.args) == 1):
            v = self.expr(node.args[0])
            if v[0] == "fp":
                rm = {"floor": z3.RTN(), "ceil": z3.RTP(), "trunc": z3.RTZ()}[node.func.attr]
                return ("bvint", z3.fpToSBV(rm, v[1], z3.BitVecSort(64)))
            if v[0] in ("int", "bvint"):
                return v
        raise Untranslatable("unsupported expression: " + ast.dump(node)[:120])

    def ite(self, c, a, b):
        if a[0] == "none" and b[0] == "none":
            return a
        if z3.is_true(z3.simplify(c)):
            return a
        if z3.is_false(z3.simplify(c)):
            return b
        if a[0] == b[0] and a[0] in ("int", "bvint", "fp", "real", "bool", "us"):
            return (a[0], z3.If(c, a[1], b[1]))
        if {a[0], b[0]} <= {"int", "const", "real", "fp"}:
            if "fp" in (a[0], b[0]) or self.float_mode == "fp" and any(v[0] == "const" and isinstance(v[1], float) for v in (a, b)):
                return ("fp", z3.If(c, to_fp(a), to_fp(b)))
            if "real" in (a[0], b[0]) or any(v[0] == "const" and isinstance(v[1], float) for v in (a, b)):
                return ("real", z3.If(c, to_real(a), to_real(b)))
            return ("int", z3.If(c, to_int(a), to_int(b)))
        raise Untranslatable(f"ite over {a[0]}/{b[0]}")

    # -- straight-line function bodies: returns list of (path condition, tagged value)
    def run(self, body, cond=None):
        cond = z3.BoolVal(True) if cond is None else cond
        out = []
        live = cond
        for st in body:
            if isinstance(st, ast.Expr) and isinstance(st.value, ast.Constant):
                continue  # docstring
            if isinstance(st, ast.Return):
                out.append((live, self.expr(st.value) if st.value is not None else ("none",)))
                return out, None
            if isinstance(st, (ast.Assign, ast.AnnAssign)):
                tgt = st.targets[0] if isinstance(st, ast.Assign) else st.target
                if not isinstance(tgt, ast.Name):
                    raise Untranslatable("assignment target")
                self.env[tgt.id] = self.expr(st.value)
                continue
            if isinstance(st, ast.If):
                c = self.truth(self.expr(st.test))
                saved = dict(self.env)
                o1, live1 = self.run(st.body, z3.And(live, c))
                env1 = self.env
                self.env = dict(saved)
                o2, live2 = self.run(st.orelse, z3.And(live, z3.Not(c))) if st.orelse else ([], z3.And(live, z3.Not(c)))
                env2 = self.env
                out += o1 + o2
                if live1 is None and live2 is None:
                    return out, None
                if live1 is None:
                    self.env, live = env2, live2
                elif live2 is None:
                    self.env, live = env1, live1
                else:
                    merged = {}
                    for k in env1:
                        if k in env2:
                            merged[k] = env1[k] if env1[k] is env2[k] else self.ite(c, env1[k], env2[k])
                    self.env, live = merged, z3.Or(live1, live2)
                continue
            raise Untranslatable("unsupported statement " + type(st).__name__)
        return out, live
