#!/bin/sh
# vk/seed5.sh <PROP> : take a round-5 sub-agent's deliverables from /tmp/wt5_<PROP>/_out, verify them myself
# (vk/seedverify.py: suite green with the change, demo fails with it, passes without), store as seeded/<PROP>_r5m1,
# then run the property's quick check against the change (scratch: applied to /repo, always reverted).
P="$1"; B=/tmp/mut5; WT=/tmp/wt5_$P
mkdir -p $B/out_$P; rm -f $B/wt_$P; ln -s $WT $B/wt_$P
cp $WT/_out/patch.diff $B/out_$P/m1.diff && cp $WT/_out/demo.py $B/out_$P/demo_m1.py || exit 9
{ echo "## m1"; cat $WT/_out/notes.txt; } > $B/out_$P/notes.md
rm -rf $WT/_out; git -C $WT checkout -- . ; git -C $WT clean -fdq
cd /verif && VK_MUT_BASE=$B VK_MUT_TAG=r5m .venv/bin/python -m vk.seedverify $P 1 2>&1 | tail -25
