#!/bin/sh
# vk/mutcheck.sh <patch.diff> <PROP> [tier]  : apply a seeded change to /repo, run the check, always revert.
D="$1"; P="$2"; T="${3:-quick}"
cd /repo || exit 9
git diff --quiet || { echo "repo dirty"; exit 9; }
git apply "$D" || { echo "patch does not apply"; git checkout -- .; exit 9; }
cd /verif && ./check "$P" "$T" > /tmp/mutcheck_$$.log 2>&1; rc=$?
git -C /repo checkout -- . ; git -C /repo clean -fdq src
grep -E "VIOLATION|INCONCLUSIVE|^OK|HARNESS|KNOWN" /tmp/mutcheck_$$.log | head -8
rm -f /tmp/mutcheck_$$.log
echo "exit=$rc"
