"""Opaque model of CPython's json for symbolic execution.

CrossHair's pure-Python json keeps values symbolic but costs seconds per path on symbolic numbers,
and the text itself is not the subject of any property (C15 is about the SDK's codec, C16 about
sizes).  `dumps` returns a token carrying the JSON *projection* of the value per the documented
conversion table of the json module; `loads` returns a fresh deep copy of that projection.

    None/bool/int/float/str -> themselves (str subclasses such as StrEnum members -> plain str value)
    list, tuple             -> list
    dict                    -> dict; keys: str kept, int/float -> their decimal text, True/False/None ->
                               "true"/"false"/"null", anything else TypeError; duplicate keys: last wins
    anything else           -> TypeError

Contract assumed: json.loads(json.dumps(x)) equals this projection (CPython json with default
allow_nan=True, ensure_ascii=True).  Concrete replays use the real json module.
`len(token)` is `token.size`, a harness-supplied (possibly symbolic) size.
"""
from __future__ import annotations

import enum


class JSONDecodeError(ValueError):
    pass


class JTok:
    __slots__ = ("val", "size")

    def __init__(self, val, size=None):
        self.val = val
        self.size = size

    def __len__(self):
        if self.size is None:
            raise AssertionError("length of an opaque JSON token requested but no size model installed")
        return self.size

    def __bool__(self):
        return True  # JSON text is never empty

    def strip(self):
        return self


def _key(k):
    if isinstance(k, enum.Enum) and isinstance(k, str):
        return k.value
    if isinstance(k, str):
        return k
    if k is True:
        return "true"
    if k is False:
        return "false"
    if k is None:
        return "null"
    if isinstance(k, int):
        return str(k)
    if isinstance(k, float):
        return repr(k)
    raise TypeError("keys must be str, int, float, bool or None")


def project(o):
    if o is None or o is True or o is False:
        return o
    if isinstance(o, enum.Enum) and isinstance(o, str):
        return o.value
    if isinstance(o, (int, float, str)):
        return o
    if isinstance(o, (list, tuple)):
        return [project(x) for x in o]
    if isinstance(o, dict):
        out = {}
        for k, v in o.items():
            out[_key(k)] = project(v)
        return out
    raise TypeError("Object is not JSON serializable")


def copy(o):
    if isinstance(o, list):
        return [copy(x) for x in o]
    if isinstance(o, dict):
        return {k: copy(v) for k, v in o.items()}
    return o


class JsonModel:
    JSONDecodeError = JSONDecodeError
    size_of = None  # optional callable(value) -> int

    @staticmethod
    def dumps(o, separators=None, **kw):
        return JTok(project(o), JsonModel.size_of(o) if JsonModel.size_of else None)

    @staticmethod
    def loads(t):
        if not isinstance(t, JTok):
            raise JSONDecodeError("not produced by the json model")
        return copy(t.val)
