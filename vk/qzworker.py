"""Run ONE lemma that discharges its own SMT queries (z3 python API / AST side conditions).

usage: python -m vk.qzworker <module> <function> <timeout_s>
The function returns a dict with at least {"verdict": CONFIRMED|REFUTED|UNKNOWN, "queries": n, "detail": str};
for REFUTED it sets "reproduced": True iff the solver's model was replayed against the real function and failed.
"""
from __future__ import annotations

import importlib
import json
import os
import sys
import time
import traceback


def main() -> int:
    modname, fname, tmo = sys.argv[1], sys.argv[2], float(sys.argv[3])
    os.environ["VK_QZ_TIMEOUT"] = str(tmo)
    out = {"module": modname, "function": fname, "timeout": tmo}
    t0 = time.time()
    try:
        mod = importlib.import_module(modname)
        r = getattr(mod, fname)()
        out.update(r)
        out.setdefault("paths", r.get("queries", 0))
        out.setdefault("exhausted", r.get("verdict") == "CONFIRMED")
    except BaseException as e:  # noqa: BLE001
        out.update(verdict="ERROR", detail="".join(traceback.format_exception_only(type(e), e)).strip(),
                   tb=traceback.format_exc()[-2000:])
    out["solver_s"] = round(time.time() - t0, 3)
    print("VKRESULT " + json.dumps(out, default=str))
    return 0


if __name__ == "__main__":
    sys.exit(main())
