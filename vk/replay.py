"""Replay a counterexample concretely (no CrossHair, no adaptations): python -m vk.replay <module> <function> <file.json|call-expr>

The JSON file holds {"call": "f(1, [2])"}; the call expression is what CrossHair printed.  Exit 0 and
`VKREPLAY {"failed": true, ...}` if the lemma fails on the real code with these arguments.
"""
from __future__ import annotations

import importlib
import json
import os
import sys
import traceback

os.environ["VK_MODE"] = "replay"


def parse_call(expr: str):
    """'name(a, b, k=v)' -> (args, kwargs) using a restricted eval."""
    i = expr.index("(")
    inner = expr[i:]
    ns = {"__builtins__": {}, "float": float, "nan": float("nan"), "inf": float("inf"), "True": True,
          "False": False, "None": None, "dict": dict, "list": list, "tuple": tuple, "set": set,
          "frozenset": frozenset, "bytes": bytes, "str": str, "int": int, "bool": bool}
    return eval("(lambda *a, **k: (a, k))" + inner, ns)  # noqa: S307


def main() -> int:
    modname, fname, src = sys.argv[1], sys.argv[2], sys.argv[3]
    if os.path.exists(src):
        with open(src) as f:
            call = json.load(f)["call"]
    else:
        call = src
    out = {"module": modname, "function": fname, "call": call}
    try:
        args, kwargs = parse_call(call)
    except BaseException as e:  # noqa: BLE001
        out.update(failed=False, unparsable=True, exc=repr(e))
        print("VKREPLAY " + json.dumps(out))
        return 0
    mod = importlib.import_module(modname)
    fn = getattr(mod, fname)
    try:
        ret = fn(*args, **kwargs)
        out.update(failed=(ret is False), ret=repr(ret)[:200])
    except BaseException as e:  # noqa: BLE001
        out.update(failed=True, exc="".join(traceback.format_exception_only(type(e), e)).strip()[:2000],
                   tb=traceback.format_exc()[-3000:])
    print("VKREPLAY " + json.dumps(out))
    return 0


if __name__ == "__main__":
    sys.exit(main())
