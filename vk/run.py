"""Driver: decide one property.  python -m vk.run <PROPERTY_ID> [--tier quick|thorough] [--only lemma]

For every lemma of harness/<ID>.py:
  * run it under CrossHair in its own process (vk.sxworker) -> CONFIRMED / REFUTED / UNKNOWN / VACUOUS
  * run its reachability twins (VK_TWIN=<label>) -> must be REFUTED with the VKREACH marker
  * REFUTED main lemma: replay the counterexample concretely (vk.replay, real json/match/format);
    only a reproducing counterexample is a VIOLATION; anything else is INCONCLUSIVE (exit 2).
Lemmas of kind "qz" generate SMT queries themselves (z3 python API) and are run through vk.qzworker.
Known findings (known_findings.json, status "open") are replayed and printed as KNOWN-FINDING; the
lemma itself excludes their region (vk.h.known), so any other violation is still reported.
Exit: 0 held, 1 violation (line `VIOLATION property=<id> replay=<path>`), 2 inconclusive / harness error.
"""
from __future__ import annotations

import argparse
import concurrent.futures as cf
import hashlib
import importlib
import json
import os
import re
import subprocess
import sys
import time

ROOT = os.path.dirname(os.path.dirname(os.path.abspath(__file__)))
PY = sys.executable
GRACE = 45


def _env(extra=None):
    env = dict(os.environ)
    env["PYTHONPATH"] = ROOT + os.pathsep + env.get("PYTHONPATH", "")
    env["PYTHONHASHSEED"] = "0"
    env.pop("VK_TWIN", None)
    env.pop("VK_NOEXCL", None)
    env["VK_MODE"] = "sx"
    if extra:
        env.update(extra)
    return env


def _run_worker(worker, modname, fname, tmo, extra_env=None, arg3=None):
    cmd = [PY, "-m", worker, modname, fname, str(arg3 if arg3 is not None else tmo)]
    t0 = time.time()
    try:
        p = subprocess.run(cmd, cwd=ROOT, env=_env(extra_env), capture_output=True, text=True,
                           timeout=tmo * 1.5 + GRACE)
        so, se = p.stdout, p.stderr
    except subprocess.TimeoutExpired as e:
        return {"verdict": "UNKNOWN", "detail": "worker wall timeout", "wall_s": round(time.time() - t0, 2),
                "stderr": (e.stderr or b"")[-500:].decode("utf8", "replace") if isinstance(e.stderr, bytes) else ""}
    res = None
    for line in so.splitlines():
        if line.startswith(("VKRESULT ", "VKREPLAY ")):
            res = json.loads(line.split(" ", 1)[1])
    if res is None:
        res = {"verdict": "ERROR", "detail": "worker produced no result", "stderr": se[-1500:], "stdout": so[-500:]}
    res["wall_s"] = round(time.time() - t0, 2)
    return res


def fail_fast(prop, tier, lemmas, njobs):
    """matrix mode: main runs only, in the order cheapest-first; the first REFUTED lemma whose counterexample reproduces ends the run"""
    import signal
    os.makedirs(os.path.join(ROOT, "replays"), exist_ok=True)
    inconcl = 0
    with cf.ThreadPoolExecutor(max_workers=njobs) as pool:
        futs = {}
        for name, meta in lemmas:
            tmo = meta["thorough_timeout"] if tier == "thorough" else meta["timeout"]
            worker = "vk.qzworker" if meta["kind"] == "qz" else "vk.sxworker"
            futs[pool.submit(_run_worker, worker, meta["module"], name, tmo)] = (name, meta)
        for fut in cf.as_completed(futs):
            name, meta = futs[fut]
            m = fut.result()
            v = m.get("verdict")
            if v == "REFUTED":
                call = m.get("call") or extract_call(m.get("detail", ""))
                if meta["kind"] == "qz":
                    rp = {"failed": bool(m.get("reproduced"))}
                elif call:
                    rp = _run_worker("vk.replay", meta["module"], name, 120, {"VK_MODE": "replay"}, arg3=call)
                else:
                    rp = None
                if rp and rp.get("failed") and meta.get("inductive"):
                    inconcl += 1
                    print(f"INCONCLUSIVE property={prop} lemma={name}: inductive step fails (constructed state)")
                    continue
                if rp and rp.get("failed"):
                    print(f"VIOLATION property={prop} replay=(fail-fast, not stored)")
                    print(f"  lemma {name}: {str(m.get('detail'))[:300]}")
                    sys.stdout.flush()
                    os.killpg(os.getpgid(0), signal.SIGKILL)
                inconcl += 1
            elif v != "CONFIRMED":
                inconcl += 1
                print(f"INCONCLUSIVE property={prop} lemma={name}: {v}")
    print(f"{'OK' if not inconcl else 'INCONCLUSIVE-ONLY'} property={prop} (fail-fast)")
    return 2 if inconcl else 0


_CALL_RE = re.compile(r"when calling (\w+\(.*)$", re.S)


def extract_call(detail: str):
    m = _CALL_RE.search(detail)
    if not m:
        return None
    s = m.group(1)
    # balanced-paren cut: name( ... )
    depth = 0
    instr = None
    i = s.index("(")
    j = i
    while j < len(s):
        c = s[j]
        if instr:
            if c == "\\":
                j += 1
            elif c == instr:
                instr = None
        elif c in "'\"":
            instr = c
        elif c in "([{":
            depth += 1
        elif c in ")]}":
            depth -= 1
            if depth == 0:
                return s[: j + 1]
        j += 1
    return None


def load_known(prop):
    try:
        with open(os.path.join(ROOT, "known_findings.json")) as f:
            data = json.load(f)
    except FileNotFoundError:
        return []
    return [e for e in data.get("findings", []) if e.get("property") == prop and e.get("status") == "open"]


def main() -> int:
    ap = argparse.ArgumentParser()
    ap.add_argument("prop")
    ap.add_argument("--tier", default=os.environ.get("VERIF_TIER", "quick"))
    ap.add_argument("--only", default=None)
    ap.add_argument("--fail-fast", action="store_true",
                    help="(seeded-change matrix) no twins; stop at the first counterexample that reproduces, print VIOLATION and kill the process group")
    ap.add_argument("--jobs", type=int, default=int(os.environ.get("VK_JOBS", "16")))
    ap.add_argument("--no-evidence", action="store_true")
    a = ap.parse_args()
    prop, tier = a.prop, a.tier
    os.environ["VERIF_TIER"] = tier
    seed = int(os.environ.get("VERIF_SEED", "0") or 0)
    t0 = time.time()
    sys.path.insert(0, ROOT)
    os.environ.setdefault("VK_MODE", "sx")
    import glob
    modnames = [f"harness.{prop}"] + sorted("harness." + os.path.basename(f)[:-3] for f in glob.glob(os.path.join(ROOT, "harness", f"{prop}_*.py")))
    lemmas = []
    mods = {}
    for modname in modnames:
        # each module is imported in a separate interpreter when its lemmas run; here only the metadata is read
        mod = importlib.import_module(modname)
        mods[modname] = mod
        for name, obj in vars(mod).items():
            meta = getattr(obj, "__vk__", None)
            if meta and getattr(obj, "__module__", None) == modname:
                if a.only and name not in a.only.split(","):
                    continue
                if meta["tier"] == "thorough" and tier != "thorough":
                    continue
                meta = dict(meta)
                meta["module"] = modname
                lemmas.append((name, meta))
    mod = mods[modnames[0]]
    modname = modnames[0]
    if not lemmas:
        print(f"HARNESS-ERROR no lemmas for {prop}")
        return 2

    if a.fail_fast:
        return fail_fast(prop, tier, lemmas, a.jobs)

    jobs = []  # (lemma, role, label, future)
    results = {name: {"meta": meta, "twins": {}} for name, meta in lemmas}
    with cf.ThreadPoolExecutor(max_workers=a.jobs) as pool:
        for name, meta in lemmas:
            tmo = meta["thorough_timeout"] if tier == "thorough" else meta["timeout"]
            worker = "vk.qzworker" if meta["kind"] == "qz" else "vk.sxworker"
            jobs.append((name, "main", None, pool.submit(_run_worker, worker, meta["module"], name, tmo)))
            if meta["kind"] == "sx":
                for label in meta["reach"]:
                    jobs.append((name, "twin", label,
                                 pool.submit(_run_worker, worker, meta["module"], name, meta["twin_timeout"], {"VK_TWIN": label})))
        for name, role, label, fut in jobs:
            r = fut.result()
            if role == "main":
                results[name]["main"] = r
            else:
                results[name]["twins"][label] = r

    violations, inconclusive, lines, weak = [], [], [], []
    os.makedirs(os.path.join(ROOT, "replays"), exist_ok=True)
    for name, meta in lemmas:
        R = results[name]
        m = R["main"]
        v = m.get("verdict")
        if v == "REFUTED":
            call = m.get("call") or extract_call(m.get("detail", ""))
            rp = None
            if meta["kind"] == "qz":
                # qz lemmas replay their own model against the real function and report `reproduced`
                rp = {"failed": bool(m.get("reproduced")), "exc": m.get("detail", "")}
            elif call:
                rp = _run_worker("vk.replay", meta["module"], name, 120, {"VK_MODE": "replay"}, arg3=call)
            R["replay"] = rp
            if rp and rp.get("failed"):
                h = hashlib.sha1((name + (call or m.get("detail", ""))).encode()).hexdigest()[:10]
                path = os.path.join(ROOT, "replays", f"{prop}_{name}_{h}.json")
                with open(path, "w") as f:
                    json.dump({"property": prop, "module": meta["module"], "lemma": name, "call": call,
                               "solver_message": m.get("detail"), "replay_exception": rp.get("exc"),
                               "how": f"cd /verif && .venv/bin/python -m vk.replay {meta['module']} {name} {path}"}, f, indent=1)
                if meta.get("inductive"):
                    weak.append((name, path, m.get("detail", "")[:300]))
                else:
                    violations.append((name, path, m.get("detail", "")[:300]))
            else:
                inconclusive.append((name, "counterexample did not reproduce concretely: " + str(m.get("detail"))[:300]))
        elif v != "CONFIRMED":
            inconclusive.append((name, f"{v}: {str(m.get('detail'))[:300]} {str(m.get('stderr', ''))[-300:]}"))
        for label, t in R["twins"].items():
            tv = t.get("verdict")
            if tv == "REFUTED" and "VKREACH:" + label in t.get("detail", ""):
                continue
            if tv == "REFUTED":
                # some other failure on the way: the main run reports it; not a vacuity problem
                continue
            inconclusive.append((name, f"reachability twin '{label}' not reached ({tv}: {str(t.get('detail'))[:200]})"))

    # inductive-step counterexamples count only next to a public-API violation (see vk/h.py)
    if weak and violations:
        violations += weak
    else:
        for (name, path, detail) in weak:
            inconclusive.append((name, "inductive step fails from a constructed invariant state (no public-API counterexample): " + detail))

    # known findings: replay each witness without exclusion
    known_lines = []
    for e in load_known(prop):
        w = e.get("witness", {})
        rp = _run_worker("vk.replay", w.get("module", modname), w["lemma"], 120,
                         {"VK_MODE": "replay", "VK_NOEXCL": "1"}, arg3=w["call"])
        e["_replay"] = rp
        if rp.get("failed"):
            known_lines.append(f"KNOWN-FINDING: property={prop} {e['id']}: {e['summary']}")
        else:
            known_lines.append(f"NOTE: known finding {e['id']} no longer reproduces on this tree (witness passes)")

    wall = time.time() - t0
    if not a.no_evidence and not a.only:
        write_evidence(prop, tier, seed, lemmas, results, violations, inconclusive, wall, list(mods.values()), known_lines)

    for ln in known_lines:
        print(ln)
    for name, meta in lemmas:
        m = results[name]["main"]
        print(f"  {prop}.{name}: {m.get('verdict')} paths={m.get('paths', m.get('queries', '-'))} "
              f"t={m.get('wall_s')}s " + " ".join(f"twin[{k}]={t.get('verdict')}" for k, t in results[name]['twins'].items()))
    if violations:
        for name, path, det in violations:
            print(f"VIOLATION property={prop} replay={path}")
            print(f"  lemma {name}: {det}")
        return 1
    if inconclusive:
        for name, why in inconclusive:
            print(f"INCONCLUSIVE property={prop} lemma={name}: {why}")
        return 2
    print(f"OK property={prop} tier={tier} lemmas={len(lemmas)} wall={wall:.1f}s")
    return 0


def write_evidence(prop, tier, seed, lemmas, results, violations, inconclusive, wall, mods, known_lines):
    queries = []
    total_paths = 0
    confirmed = 0
    funcs = set()
    samples = []
    solver_s = 0.0
    nontrivial = 0
    for name, meta in lemmas:
        m = results[name]["main"]
        p = int(m.get("paths", 0) or m.get("queries", 0) or 0)
        total_paths += p
        solver_s += float(m.get("solver_s", 0) or 0)
        if m.get("verdict") == "CONFIRMED":
            confirmed += 1
            nontrivial += p
        funcs.update(meta["funcs"])
        q = {"lemma": name, "kind": meta["kind"], "verdict": m.get("verdict"), "paths_or_queries": p,
             "exhausted": m.get("exhausted"), "solver_s": m.get("solver_s"), "bounds": meta["bounds"],
             "twins": {k: t.get("verdict") for k, t in results[name]["twins"].items()}}
        if m.get("extra"):
            q["extra"] = m["extra"]
        queries.append(q)
        for label, t in results[name]["twins"].items():
            c = extract_call(t.get("detail", ""))
            if c and len(samples) < 12:
                samples.append({"lemma": name, "reach": label, "witness_input": c})
            solver_s += float(t.get("solver_s", 0) or 0)
        if m.get("samples"):
            samples.extend(m["samples"][:4])
    doc = []
    for _m in mods:
        for _a in getattr(_m, "ASSUMPTIONS", []):
            if _a not in doc:
                doc.append(_a)
    ev = {
        "property_id": prop,
        "tier": tier,
        "seed": seed,
        "level": "model_checking",
        "coverage": {
            "evaluations": max(total_paths, 1),
            "distinct_nontrivial": max(nontrivial, 0),
            "rule": "each evaluation is one symbolic path (a distinct sequence of solver-decided branch outcomes through the "
                    "harness + real SDK code) or one SMT query; all are distinct by construction; counted as non-trivial when "
                    "the path belongs to a lemma whose whole path space was exhausted (CONFIRMED) - paths of twins are not counted",
            "samples": samples or [{"note": "no twin witness available"}],
            "exhaustive": bool(confirmed == len(lemmas)),
            "obligations": len(lemmas),
            "discharged": confirmed,
            "functions_encoded": sorted(funcs),
            "queries": queries,
            "solver_time_s": round(solver_s, 2),
            "technique": "bounded symbolic execution of the real SDK code (CrossHair 0.0.110 + z3), per-path exhaustion; "
                         "direct z3 queries generated from the SDK AST where noted",
            "bounds_note": "bounds are per lemma (see queries[].bounds); everything outside them is outside the claim",
            "known_findings": known_lines,
        },
        "assumptions": list(doc),
        "wall_s": round(wall, 2),
        "violations": len(violations),
    }
    if inconclusive:
        ev["coverage"]["inconclusive"] = [f"{n}: {w}" for n, w in inconclusive]
    os.makedirs(os.path.join(ROOT, "evidence"), exist_ok=True)
    with open(os.path.join(ROOT, "evidence", f"{prop}.json"), "w") as f:
        json.dump(ev, f, indent=1)


if __name__ == "__main__":
    try:
        rc = main()
    except SystemExit:
        raise
    except BaseException as e:  # noqa: BLE001  a crash of the machinery is never a verdict: exit code 2 (inconclusive), not 1 (violation)
        import traceback
        traceback.print_exc()
        print(f"HARNESS-ERROR {type(e).__name__}: {str(e)[:300]}")
        rc = 2
    sys.exit(rc)
