"""vk - verification kit: CrossHair/z3 driver for the durable-execution SDK properties."""
