"""Deterministic scheduler for coroutine-lowered SDK code (vk/colower.py) + stub primitives.

Logical threads are generators.  Exactly one runs at a time.  A thread runs until it blocks, finishes, or is
preempted at one of <= K solver-chosen preemption points (context-bounded scheduling: the k-th preemption happens
at the global yield number `pre_step[k]` and switches to thread `pre_to[k]`).  When the running thread blocks or
finishes the lowest-numbered runnable thread continues.  A state in which no thread is runnable but some are
blocked is a deadlock (= "blocks forever").
"""
from __future__ import annotations

import queue as _queue


class Deadlock(BaseException):
    """blocks forever; BaseException so that SDK code (`except Exception`) cannot swallow the verdict"""


class StepLimit(BaseException):
    pass


class VEvent:
    """Stub threading.Event (flag only; blocking is done by the scheduler through the lowered `wait`)."""

    def __init__(self):
        self.flag = False

    def set(self):
        self.flag = True

    def clear(self):
        self.flag = False

    def is_set(self):
        return self.flag

    def wait(self, timeout=None):
        if not self.flag and timeout is None:
            raise Deadlock("un-lowered blocking wait on an unset event")
        return self.flag


class VLock:
    def __init__(self):
        self.held = False

    def __enter__(self):
        assert not self.held, "lock re-entered"
        self.held = True
        return self

    def __exit__(self, *a):
        self.held = False
        return False

    def acquire(self, *a, **k):
        self.__enter__()
        return True

    def release(self):
        self.held = False


class Clock:
    """Virtual clock: advances only when a timed queue.get finds nothing."""

    def __init__(self, now=1000.0):
        self.now = now

    def time(self):
        return self.now


class VQueue:
    """Stub queue.Queue (FIFO list). A timed get on an empty queue lets virtual time pass and raises Empty."""

    clock: Clock = None
    idle_hook = None  # called when a get finds the queue empty

    join_hook = None  # called by join() while tasks are unfinished: lets other threads run; returns False if nobody can

    def __init__(self):
        self.items = []
        self.gets = 0
        self.unfinished = 0

    def put(self, x):
        self.items.append(x)
        self.unfinished += 1

    def join(self):
        n = 0
        while self.unfinished > 0:
            n += 1
            if VQueue.join_hook is None or not VQueue.join_hook(self) or n > 200:
                raise Deadlock("queue.join() blocks forever: queued operations were never marked done")

    def get_nowait(self):
        if not self.items:
            raise _queue.Empty
        return self.items.pop(0)

    def get(self, block=True, timeout=None):
        self.gets += 1
        if not self.items:
            if VQueue.clock is not None and timeout is not None:
                VQueue.clock.now += timeout
            if VQueue.idle_hook is not None:
                VQueue.idle_hook(self)
            raise _queue.Empty
        return self.items.pop(0)

    def task_done(self):
        self.unfinished -= 1

    def empty(self):
        return not self.items

    def qsize(self):
        return len(self.items)


class QueueModule:
    Queue = VQueue
    Empty = _queue.Empty


class Thread:
    def __init__(self, name, gen):
        self.name = name
        self.gen = gen
        self.done = False
        self.blocked_on = None
        self.result = None
        self.exc = None
        self.steps = 0

    def runnable(self):
        if self.done:
            return False
        if self.blocked_on is not None:
            return self.blocked_on.is_set()
        return True


class Sched:
    def __init__(self, pre_step=(), pre_to=(), choices=(), max_steps=400):
        self.threads = []
        self.pre = list(zip(pre_step, pre_to))
        self.choices = list(choices)   # solver-chosen successor at blocking points (non-preemptive switches)
        self.c = 0
        self.force_switch = False
        self.k = 0
        self.step = 0
        self.max_steps = max_steps
        self.cur = None
        self.trace = []
        self.on_step = None      # callback(sched, thread, msg) after each step
        self.quiescent = None    # callback(sched) -> bool: called when only `daemon` threads are runnable; True = handled
        self.daemons = set()

    def spawn(self, name, gen, daemon=False):
        t = Thread(name, gen)
        self.threads.append(t)
        if daemon:
            self.daemons.add(name)
        return t

    def _pick(self):
        # solver-chosen preemption
        if self.k < len(self.pre):
            s, to = self.pre[self.k]
            if s == self.step:
                self.k += 1
                if 0 <= to < len(self.threads) and self.threads[to].runnable():
                    return self.threads[to]
        if self.cur is not None and self.cur.runnable() and not self.force_switch:
            return self.cur
        runnable = [t for t in self.threads if t.runnable()]
        if self.force_switch:
            self.force_switch = False
            others = [t for t in runnable if t is not self.cur]
            if others:
                runnable = others
        if not runnable:
            return None
        if len(runnable) > 1 and self.c < len(self.choices):
            i = self.choices[self.c]
            self.c += 1
            if 0 <= i < len(runnable):
                return runnable[i]
        return runnable[0]

    def run(self):
        while True:
            if all(t.done for t in self.threads):
                return
            t = self._pick()
            if t is None:
                blocked = [x.name for x in self.threads if not x.done]
                raise Deadlock("no runnable thread; blocked forever: " + ",".join(blocked))
            # only daemon threads (the consumer polling an empty queue) left runnable?
            if self.quiescent is not None and t.name in self.daemons and not any(
                    x.runnable() for x in self.threads if x.name not in self.daemons):
                if self.quiescent(self):
                    continue
            self.cur = t
            self.step += 1
            if self.step > self.max_steps:
                raise StepLimit("step limit reached (livelock or bound too small)")
            try:
                msg = t.gen.send(None)
            except StopIteration as e:
                t.done = True
                t.result = e.value
                msg = ("done",)
            except Deadlock:
                raise
            except Exception as e:  # noqa: BLE001  (CrossHair's control exceptions are BaseException and pass through)
                t.done = True
                t.exc = e
                msg = ("raised", e)
            except BaseException as e:  # SDK BaseExceptions (BackgroundThreadError, SuspendExecution, ...) end the thread
                if type(e).__module__.startswith("aws_durable_execution_sdk_python"):
                    t.done = True
                    t.exc = e
                    msg = ("raised", e)
                else:
                    raise
            t.steps += 1
            if msg and msg[0] == "blocked":
                t.blocked_on = msg[1]
            else:
                t.blocked_on = None
            self.trace.append((t.name, msg[0] if msg else None, msg[1] if msg and len(msg) > 1 and isinstance(msg[1], str) else None))
            if self.on_step is not None:
                self.on_step(self, t, msg)
