"""Helpers used inside harness (lemma) functions.

A lemma is a plain Python function with a PEP-316 contract whose parameters are the symbolic
variables.  It builds a pre-state, calls the real SDK code and states the oracle with `check`.
The same function is executed in three ways:

  * VK_MODE=sx      under CrossHair (symbolic arguments, z3 decides every branch)
  * VK_MODE=replay  concretely, with the solver's counterexample, without any CrossHair
                    adaptation (real json / real `match` / real formatting)
  * VK_TWIN=<label> reachability twin: `check` is disabled and `reach(label)` fails, so the twin
                    must come back REFUTED, otherwise the lemma is vacuous.
"""
from __future__ import annotations

import json
import os

MODE = os.environ.get("VK_MODE", "sx")
TWIN = os.environ.get("VK_TWIN") or None
TIER = os.environ.get("VERIF_TIER", os.environ.get("VK_TIER", "quick"))
THOROUGH = TIER == "thorough"
NOEXCL = os.environ.get("VK_NOEXCL") == "1"

_ROOT = os.path.dirname(os.path.dirname(os.path.abspath(__file__)))


class Reached(AssertionError):
    pass


def check(cond, msg: str = "oracle violated") -> None:
    """Oracle assertion (disabled in a reachability twin)."""
    if TWIN is not None:
        return
    if not cond:
        raise AssertionError(msg)


def reach(label: str) -> None:
    """Reachability witness: in the twin for `label` this point must be reachable."""
    if TWIN == label:
        raise Reached("VKREACH:" + label)


def end() -> None:
    reach("end")


# ---- known findings -------------------------------------------------------------------------
_KNOWN = None


def _load_known():
    global _KNOWN
    if _KNOWN is None:
        _KNOWN = {}
        try:
            with open(os.path.join(_ROOT, "known_findings.json")) as f:
                data = json.load(f)
            for e in data.get("findings", []):
                if e.get("status") == "open":
                    _KNOWN[e["id"]] = e
        except FileNotFoundError:
            pass
    return _KNOWN


def known(finding_id: str, in_region) -> bool:
    """True iff `finding_id` is an OPEN known finding and the current input lies in its region.

    The lemma then returns early, so the region is excluded from the claim (and reported as
    KNOWN-FINDING by the driver, which replays the witness with VK_NOEXCL=1).  A finding that is
    absent from known_findings.json or marked fixed excludes nothing.
    """
    if NOEXCL:
        return False
    if finding_id not in _load_known():
        return False
    return bool(in_region)


# ---- lemma registry ---------------------------------------------------------------------------
def lemma(timeout: int = 60, thorough_timeout: int | None = None, reach=("end",), tier: str = "quick",
          funcs=(), bounds: str = "", kind: str = "sx", twin_timeout: int | None = None, inductive: bool = False):
    """Attach metadata; returns the function unchanged so CrossHair analyses the original."""

    def deco(fn):
        fn.__vk__ = dict(
            name=fn.__name__, timeout=timeout, thorough_timeout=thorough_timeout or timeout * 4,
            reach=tuple(reach), tier=tier, funcs=tuple(funcs), bounds=bounds, kind=kind,
            twin_timeout=twin_timeout or timeout,
            # inductive=True: the lemma starts from a CONSTRUCTED internal state satisfying the harness's representation invariant.  A counterexample
            # then shows that the inductive argument fails, not that a public-API history misbehaves: reported as INCONCLUSIVE unless a lemma that
            # drives the code through its public API is violated as well.
            inductive=inductive,
        )
        return fn

    return deco


def quiet_logging():
    import logging

    logging.disable(logging.CRITICAL)
