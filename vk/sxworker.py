"""Run ONE lemma under CrossHair (symbolic execution + z3) and print a JSON verdict on stdout.

usage: python -m vk.sxworker <module> <function> <per_condition_timeout_s>

Verdicts: CONFIRMED (all paths exhausted, no counterexample), REFUTED (counterexample found; the
call expression is reported), UNKNOWN (not exhausted within the budget), VACUOUS (no input met the
precondition), ERROR (harness could not be analysed).
"""
from __future__ import annotations

import collections
import importlib
import json
import sys
import time
import traceback


def main() -> int:
    modname, fname, tmo = sys.argv[1], sys.argv[2], float(sys.argv[3])
    out = {"module": modname, "function": fname, "timeout": tmo}
    t0 = time.time()
    try:
        from crosshair.core_and_libs import AnalysisMessage, MessageType, analyze_function, run_checkables  # noqa
        from crosshair.options import AnalysisOptionSet

        import vk.chplugin  # noqa: F401  (installs the format adaptation)

        mod = importlib.import_module(modname)
        fn = getattr(mod, fname)
        stats: collections.Counter = collections.Counter()
        opts = AnalysisOptionSet(
            per_condition_timeout=tmo,
            per_path_timeout=max(10.0, tmo / 4),
            max_uninteresting_iterations=10**9,
            report_all=True,
            stats=stats,
        )
        checkables = list(analyze_function(fn, opts))
        if not checkables:
            out.update(verdict="ERROR", detail="no contract found")
            print(json.dumps(out))
            return 0
        msgs = run_checkables(checkables)
        states = []
        verdict = "CONFIRMED"
        detail = ""
        for m in msgs:
            states.append(m.state.name)
            if m.state in (MessageType.POST_FAIL, MessageType.EXEC_ERR, MessageType.POST_ERR):
                verdict, detail = "REFUTED", m.message
                break
            if m.state in (MessageType.SYNTAX_ERR, MessageType.IMPORT_ERR):
                verdict, detail = "ERROR", m.message
                break
            if m.state == MessageType.PRE_UNSAT:
                verdict, detail = "VACUOUS", m.message
            elif m.state == MessageType.CANNOT_CONFIRM and verdict == "CONFIRMED":
                verdict, detail = "UNKNOWN", m.message
        if not msgs:
            verdict, detail = "ERROR", "no analysis message produced"
        out.update(verdict=verdict, detail=detail, states=states,
                   paths=int(stats.get("num_paths", 0)), exhausted=bool(stats.get("exhaustion", 0)),
                   stats={k: int(v) for k, v in stats.items()})
    except BaseException as e:  # noqa: BLE001
        out.update(verdict="ERROR", detail="".join(traceback.format_exception_only(type(e), e)).strip(),
                   tb=traceback.format_exc()[-2000:])
    out["solver_s"] = round(time.time() - t0, 3)
    print("VKRESULT " + json.dumps(out))
    return 0


if __name__ == "__main__":
    sys.exit(main())
