"""Coroutine lowering: turn real SDK methods into generator functions that yield at every operation on
shared state, so that a deterministic scheduler (vk/sched.py) can interleave several logical threads on one
interpreter thread and the SOLVER chooses the interleaving.

The transformation is mechanical and re-done from /repo's source on every run:
  * before every statement that contains a call `<expr>.<attr>(...)` with attr in `yield_attrs`
    a `yield ("pt", attr, lineno)` statement is inserted (a possible preemption point);
  * an expression statement `<expr>.wait()` (blocking wait on an event, no arguments) becomes
        while not <expr>.is_set(): yield ("blocked", <expr>)
        <expr>.wait()
  * before a statement with a timed `<recv>.get(timeout=..)` (recv.get in `idle_attrs`) the lowering inserts
        if <recv>.empty(): yield ("idle", <recv>)
    - the caller is blocked in the get: other threads run; afterwards the get returns the item that arrived or times out;
  * calls `self.<m>(...)` with m in `sub` become `(yield from self._co_<m>(...))` (callee lowered too).
Nothing else is changed; the generator is compiled in the defining module's globals and attached to the class
as `_co_<name>` (the original method stays untouched).  Unsupported shapes raise -> harness error.
"""
from __future__ import annotations

import ast
import inspect
import textwrap


class _Lower(ast.NodeTransformer):
    def __init__(self, yield_attrs, sub, idle_attrs=()):
        self.yield_attrs = set(yield_attrs)
        self.sub = set(sub)
        self.idle_attrs = set(idle_attrs)
        self.points = 0

    def _idle_receiver(self, node):
        """receiver expression of a timed `recv.get(timeout=...)` call matching idle_attrs, else None"""
        for n in ast.walk(node):
            if isinstance(n, ast.Call) and isinstance(n.func, ast.Attribute) and n.func.attr == "get":
                v = n.func.value
                recv = v.attr if isinstance(v, ast.Attribute) else (v.id if isinstance(v, ast.Name) else None)
                if recv and (recv + ".get") in self.idle_attrs and any(k.arg == "timeout" for k in n.keywords):
                    return v
        return None

    # ---- helpers
    def _calls_in(self, node):
        """names of matching calls: 'method' and 'receiver.method' (receiver = last attribute/name of the callee object)"""
        out = []
        for n in ast.walk(node):
            if isinstance(n, ast.Call) and isinstance(n.func, ast.Attribute):
                out.append(n.func.attr)
                v = n.func.value
                recv = v.attr if isinstance(v, ast.Attribute) else (v.id if isinstance(v, ast.Name) else None)
                if recv:
                    out.append(recv + "." + n.func.attr)
        return out

    def _own_exprs(self, st):
        """expressions evaluated by the statement itself (not by nested blocks)"""
        if isinstance(st, (ast.If, ast.While)):
            return [st.test]
        if isinstance(st, ast.For):
            return [st.iter]
        if isinstance(st, ast.With):
            return [i.context_expr for i in st.items]
        if isinstance(st, ast.Try):
            return []
        if isinstance(st, (ast.FunctionDef, ast.ClassDef)):
            return []
        return [st]

    def _yield_stmt(self, attr, lineno):
        self.points += 1
        return ast.Expr(ast.Yield(ast.Tuple([ast.Constant("pt"), ast.Constant(attr), ast.Constant(lineno)], ast.Load())))

    def _block(self, stmts):
        out = []
        for st in stmts:
            st = self.visit(st)
            # blocking wait
            if (isinstance(st, ast.Expr) and isinstance(st.value, ast.Call) and isinstance(st.value.func, ast.Attribute)
                    and st.value.func.attr == "wait" and not st.value.args and not st.value.keywords):
                ev = st.value.func.value
                self.points += 1
                loop = ast.While(
                    ast.UnaryOp(ast.Not(), ast.Call(ast.Attribute(ev, "is_set", ast.Load()), [], [])),
                    [ast.Expr(ast.Yield(ast.Tuple([ast.Constant("blocked"), ev], ast.Load())))], [])
                out.append(loop)
                out.append(st)
                continue
            hit = None
            for e in self._own_exprs(st):
                for a in self._calls_in(e):
                    if a in self.yield_attrs:
                        hit = a
                        break
                if hit:
                    break
            if hit:
                out.append(self._yield_stmt(hit, getattr(st, "lineno", 0)))
            recv = None
            for e in self._own_exprs(st):
                recv = recv or self._idle_receiver(e)
            if recv is not None:
                # a timed get on an empty queue blocks until an item arrives or the timeout elapses:
                #     if recv.empty(): yield ("idle", recv)
                self.points += 1
                out.append(ast.If(ast.Call(ast.Attribute(recv, "empty", ast.Load()), [], []),
                                  [ast.Expr(ast.Yield(ast.Tuple([ast.Constant("idle"), recv], ast.Load())))], []))
            out.append(st)
        return out

    def generic_visit(self, node):
        for field in ("body", "orelse", "finalbody"):
            blk = getattr(node, field, None)
            if isinstance(blk, list) and blk and isinstance(blk[0], ast.stmt):
                setattr(node, field, self._block(blk))
        if isinstance(node, ast.Try):
            for hdl in node.handlers:
                hdl.body = self._block(hdl.body)
        # expressions: rewrite sub-coroutine calls
        for field, value in ast.iter_fields(node):
            if field in ("body", "orelse", "finalbody", "handlers"):
                continue
            if isinstance(value, ast.AST):
                setattr(node, field, self._expr(value))
            elif isinstance(value, list):
                setattr(node, field, [self._expr(v) if isinstance(v, ast.AST) else v for v in value])
        return node

    def _expr(self, node):
        class Sub(ast.NodeTransformer):
            def visit_Call(s, n):
                s.generic_visit(n)
                if (isinstance(n.func, ast.Attribute) and isinstance(n.func.value, ast.Name) and n.func.value.id == "self"
                        and n.func.attr in self.sub):
                    n.func = ast.Attribute(n.func.value, "_co_" + n.func.attr, ast.Load())
                    return ast.YieldFrom(n)
                return n

            def visit_Lambda(s, n):
                return n

        if isinstance(node, ast.stmt):
            return node
        return Sub().visit(node)

    def visit_FunctionDef(self, node):
        if getattr(self, "_top", None) is None:
            self._top = node
            node.body = self._block(node.body)
            for field, value in ast.iter_fields(node):
                pass
            return node
        return node  # nested defs untouched


def _helper_calls(fdef):
    """names m of calls `self.m(...)` / `cls.m(...)` inside a function"""
    out = []
    for n in ast.walk(fdef):
        if (isinstance(n, ast.Call) and isinstance(n.func, ast.Attribute) and isinstance(n.func.value, ast.Name)
                and n.func.value.id in ("self", "cls")):
            out.append(n.func.attr)
    return out


def _has_points(cls, name, yield_attrs, idle_attrs, seen):
    """does method `name` of cls (or a helper it calls, transitively) contain an operation on shared state?"""
    if name in seen:
        return False
    seen.add(name)
    raw = cls.__dict__.get(name)
    fn = getattr(raw, "__func__", raw)
    if not inspect.isfunction(fn):
        return False
    fdef = ast.parse(textwrap.dedent(inspect.getsource(fn))).body[0]
    lw = _Lower(yield_attrs, (), idle_attrs)
    for n in ast.walk(fdef):
        if isinstance(n, ast.Call) and any(a in lw.yield_attrs for a in lw._calls_in(n)):
            return True
    return any(_has_points(cls, m, yield_attrs, idle_attrs, seen) for m in _helper_calls(fdef))


def lower_method(cls, name, yield_attrs, sub=(), idle_attrs=(), _depth=0):
    """Lower cls.name into cls._co_name.  Helper methods of the same class that the method calls as self.m(...) and that themselves
    (transitively) operate on shared state are lowered too and called with `yield from` - so a refactoring that moves such operations
    into a helper keeps its preemption points.  Returns the number of points inserted (helpers included)."""
    raw = cls.__dict__.get(name, None)
    is_static = isinstance(raw, staticmethod)
    fn = getattr(cls, name)
    fn = getattr(fn, "__func__", fn)
    src = textwrap.dedent(inspect.getsource(fn))
    tree = ast.parse(src)
    fdef = tree.body[0]
    assert isinstance(fdef, ast.FunctionDef), "not a function"
    fdef.decorator_list = []
    sub = set(sub)
    extra_points = 0
    if _depth < 3:
        for m in dict.fromkeys(_helper_calls(fdef)):
            if m == name or m in sub or m not in cls.__dict__:
                continue
            if _has_points(cls, m, yield_attrs, idle_attrs, set()):
                extra_points += lower_method(cls, m, yield_attrs, (), idle_attrs, _depth + 1)
                sub.add(m)
    lw = _Lower(yield_attrs, sub, idle_attrs)
    lw.visit_FunctionDef(fdef)
    fdef.name = "_co_" + name
    # make sure it is a generator even if no point was inserted
    fdef.body.append(ast.If(ast.Constant(False), [ast.Expr(ast.Yield(ast.Constant(None)))], []))
    ast.fix_missing_locations(tree)
    ns = {}
    mod = inspect.getmodule(fn)
    code = compile(tree, inspect.getsourcefile(fn) or "<lowered>", "exec")
    exec(code, mod.__dict__, ns)  # noqa: S102
    gen = ns["_co_" + name]
    setattr(cls, "_co_" + name, staticmethod(gen) if is_static else gen)
    return lw.points + extra_points
