"""Regenerate /verif/MANIFEST.json from harness metadata + the table below.  python -m vk.mkmanifest"""
from __future__ import annotations

import json
import os

ROOT = os.path.dirname(os.path.dirname(os.path.abspath(__file__)))

ALL = [f"C{i:02d}" for i in range(1, 21)]

# property -> (level text, level note, technique, design section)
CLAIMS = {}
NOT_APPLICABLE = {}


def claim(pid, text, note, technique, ref):
    CLAIMS[pid] = dict(text=text, note=note, technique=technique, ref=ref)


exec(open(os.path.join(ROOT, "vk", "claims.py")).read())


def main():
    checks = []
    for pid in ALL:
        if pid in CLAIMS and os.path.exists(os.path.join(ROOT, "harness", pid + ".py")):
            c = CLAIMS[pid]
            checks.append({
                "property_id": pid,
                "quick_cmd": f"./check {pid} quick",
                "thorough_cmd": f"./check {pid} thorough",
                "evidence_file": f"/verif/evidence/{pid}.json",
                "replay_cmd_template": f".venv/bin/python -m vk.replay harness.{pid} <lemma> {{path}}",
                "engine": "vk",
                "level_claimed": {"category": "model_checking", "text": c["text"], "design_ref": c["ref"]},
                "level_note": c["note"],
                "technique": c["technique"],
            })
    na = [{"property_id": p, "reason": NOT_APPLICABLE.get(p, "check not built yet in this round; no claim is made")}
          for p in ALL if p not in {c["property_id"] for c in checks}]
    man = {
        "version": 1,
        "setup_cmd": "sh vk/bootstrap.sh",
        "hooks": {
            "guard": "AWS_DURABLE_EXECUTION_SDK_PYTHON_VERIF",
            "enable": "no source hooks: harnesses monkeypatch module globals of the SDK imported from /repo/src; the guard variable is exported by ./check but read by nothing in /repo",
            "baseline_off_cmd": "cd /repo && /venv/bin/python -m pytest -ra -q -p no:cacheprovider --timeout=900 --continue-on-collection-errors",
            "source_commits": [],
            "add_only": True,
        },
        "engines": [{
            "name": "vk", "path": "/verif/vk", "serves_properties": [c["property_id"] for c in checks],
            "kind_free_text": "solver-based checking of the real code: CrossHair 0.0.110 symbolic execution (z3) of harness lemmas "
                              "that call the real SDK functions imported from /repo/src on every run; direct z3 queries generated "
                              "from the SDK's AST for float/string kernels; every counterexample replayed concretely before it is reported",
        }],
        "checks": checks,
        "not_applicable": na,
        "notes": "exit codes: 0 held, 1 violation (VIOLATION line), 2 inconclusive/harness error (never reported as success or violation). "
                 "See DESIGN.md for bounds, stubs and the seeded-change detection matrix.",
    }
    with open(os.path.join(ROOT, "MANIFEST.json"), "w") as f:
        json.dump(man, f, indent=1)
    print("claimed:", [c["property_id"] for c in checks])


if __name__ == "__main__":
    main()
