"""Verify a sub-agent's seeded change myself in its scratch worktree and, if confirmed, store it under /verif/seeded/<id>/.

python -m vk.seedverify C05 1 "<what it needs to manifest>"
Checks: patch applies to a clean worktree; full test-suite passes with it; demo FAILS with it; demo PASSES without it.
"""
import json, os, shutil, subprocess, sys, time

def sh(cmd, cwd, env=None, timeout=900):
    e = dict(os.environ); e.update(env or {})
    p = subprocess.run(cmd, shell=True, cwd=cwd, env=e, capture_output=True, text=True, timeout=timeout)
    return p.returncode, (p.stdout + p.stderr)[-1500:]

def main():
    prop, k = sys.argv[1], sys.argv[2]
    needs = sys.argv[3] if len(sys.argv) > 3 else ""
    base = os.environ.get("VK_MUT_BASE", "/tmp/mut")       # round 2: /tmp/mut2 (worktrees at the repaired HEAD)
    tag = os.environ.get("VK_MUT_TAG", "m")                # round 2: r2m
    wt = f"{base}/wt_{prop}"; out = f"{base}/out_{prop}"
    diff = f"{out}/m{k}.diff"; demo = f"{out}/demo_m{k}.py"
    env = {"PYTHONPATH": f"{wt}/src"}
    ran = []
    rc, o = sh("git status --porcelain", wt); assert o.strip() == "", "worktree dirty: " + o
    rc, o = sh(f"git apply {diff}", wt); ran.append(["git apply", rc]); assert rc == 0, o
    is_pytest = "def test_" in open(demo).read()
    democmd = (f"/venv/bin/python -m pytest -q -p no:cacheprovider -x {demo}" if is_pytest else f"/venv/bin/python {demo}")
    try:
        rc_s, o_s = sh("/venv/bin/python -m pytest -q -p no:cacheprovider --timeout=900 -x", wt, env)
        ran.append(["suite with change", rc_s, o_s.strip().splitlines()[-1] if o_s.strip() else ""])
        rc_d, o_d = sh(democmd, wt, env, timeout=300)
        ran.append(["demo with change", rc_d, o_d.strip().splitlines()[-1] if o_d.strip() else ""])
    finally:
        sh("git checkout -- . && git clean -fdq", wt)
    rc_c, o_c = sh(democmd, wt, env, timeout=300)
    ran.append(["demo without change", rc_c, o_c.strip().splitlines()[-1] if o_c.strip() else ""])
    ok = rc_s == 0 and rc_d != 0 and rc_c == 0
    print(json.dumps(ran, indent=1)); print("CONFIRMED" if ok else "REJECTED")
    if ok:
        d = f"/verif/seeded/{prop}_{tag}{k}"; os.makedirs(d, exist_ok=True)
        shutil.copy(diff, f"{d}/patch.diff"); shutil.copy(demo, f"{d}/demo.py")
        notes = open(f"{out}/notes.md").read() if os.path.exists(f"{out}/notes.md") else ""
        meta = {"property": prop, "id": f"{prop}_{tag}{k}", "needs_to_manifest": needs, "origin": "independent sub-agent given only the property text",
                "verified_by_me": {"commands": [f"git apply patch.diff (scratch worktree of /repo HEAD)", "PYTHONPATH=<wt>/src /venv/bin/python -m pytest -q -p no:cacheprovider --timeout=900 -x", democmd.replace(out, "<seeded dir>")],
                                   "results": ran, "date": time.strftime("%Y-%m-%d")},
                "files_touched": [l[6:] for l in open(diff) if l.startswith("+++ b/")]}
        import re
        m = re.search(r"(?s)(#+[^\n]*\bm%s\b.*?)(?=\n#+[^\n]*\bm(?!%s\b)\d|\Z)" % (k, k), notes)
        sec = m.group(1) if m else ""
        open(f"{d}/agent_notes.md", "w").write(sec.strip() + "\n")
        n = re.search(r"(?is)(needs?[^\n]*\n(?:[^\n]+\n){0,6})", sec)
        meta["needs_to_manifest"] = needs or (re.sub(r"\s+", " ", n.group(1)).strip()[:600] if n else re.sub(r"\s+", " ", sec)[:400])
        json.dump(meta, open(f"{d}/meta.json", "w"), indent=1)
    return 0 if ok else 1
sys.exit(main())
