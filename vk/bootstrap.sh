#!/bin/sh
# Build /verif/.venv offline: a venv of /venv's interpreter that sees /venv's site-packages and
# /repo/src (the SDK is imported from the working tree on every run), plus crosshair-tool + z3
# from the offline wheelhouse. Idempotent; safe to call from concurrently running checks.
set -e
V=/verif/.venv
ok() { [ -x "$V/bin/python" ] && "$V/bin/python" -c "import crosshair, z3, aws_durable_execution_sdk_python" >/dev/null 2>&1; }
ok && exit 0
mkdir -p /verif/.locks
exec 9>/verif/.locks/bootstrap.lock
flock 9
ok && exit 0
rm -rf "$V"
/venv/bin/python -m venv "$V"
SP=$("$V/bin/python" -c "import sysconfig; print(sysconfig.get_paths()['purelib'])")
printf '/venv/lib/python3.12/site-packages\n/repo/src\n' > "$SP/overlay.pth"
PIP_NO_INDEX=1 "$V/bin/pip" install -q --no-index --find-links /opt/veriftools/wheels crosshair-tool z3-solver >/dev/null
ok || { echo "bootstrap failed" >&2; exit 3; }
