"""Negative controls: behaviour-preserving refactorings must not raise an alarm.  python -m vk.negcheck <diff> <PROP> [<PROP> ...]
Applies the diff to a scratch worktree of /repo HEAD, runs the full quick check of each property (no evidence), prints rc per property
(0 held, 1 VIOLATION = false alarm, 2 inconclusive = robustness problem of the harness)."""
import os, re, subprocess, sys, time
ROOT = os.path.dirname(os.path.dirname(os.path.abspath(__file__)))

def main():
    diff, props = sys.argv[1], sys.argv[2:]
    wt = "/tmp/vkneg_%d" % os.getpid()
    subprocess.run(f"git -C /repo worktree add -q --detach {wt} HEAD", shell=True, check=True)
    try:
        r = subprocess.run(f"git apply {diff}", shell=True, cwd=wt, capture_output=True, text=True)
        if r.returncode != 0:
            print("patch does not apply:", r.stderr[-200:]); return 9
        for p in props:
            env = dict(os.environ); env["PYTHONPATH"] = f"{wt}/src"; env["VK_JOBS"] = os.environ.get("VK_JOBS", "8")
            t0 = time.time()
            r = subprocess.run([os.path.join(ROOT, ".venv/bin/python"), "-m", "vk.run", p, "--tier", "quick", "--no-evidence"], cwd=ROOT, env=env, capture_output=True, text=True)
            bad = [l for l in r.stdout.splitlines() if l.startswith(("VIOLATION", "INCONCLUSIVE", "HARNESS"))]
            print(f"{os.path.basename(diff)} {p} rc={r.returncode} {round(time.time()-t0)}s", *[b[:260] for b in bad[:4]], sep="\n   " if bad else " ", flush=True)
            if r.returncode not in (0, 1, 2):
                print(r.stdout[-600:], r.stderr[-600:])
    finally:
        subprocess.run(f"git -C /repo worktree remove --force {wt}", shell=True)

sys.exit(main())
