"""Real threads, real ThreadPoolExecutor, real TimerScheduler: two ways a timer-driven resubmission hangs ConcurrentExecutor.execute().

  python demos/timer_thread_hangs.py refresh     # the resubmitter's state-refresh checkpoint fails -> timer thread dies, execute() waits forever
  python demos/timer_thread_hangs.py reentrant   # the resubmitted task finishes before add_done_callback -> the callback runs on the timer thread
                                                 # inside `with self._lock` and schedule_resume() re-acquires the same non-reentrant lock

Exit code 1 = execute() did not return within 8 s (hang), 0 = it returned/raised.
"""
import sys
import threading
import time

from aws_durable_execution_sdk_python.concurrency import models as M
from aws_durable_execution_sdk_python.config import CompletionConfig, ParallelConfig
from aws_durable_execution_sdk_python.context import DurableContext, ExecutionContext
from aws_durable_execution_sdk_python.exceptions import BackgroundThreadError, SuspendExecution, TimedSuspendExecution
from aws_durable_execution_sdk_python.operation.parallel import ParallelExecutor
from aws_durable_execution_sdk_python.state import CHECKPOINT_NOT_FOUND

mode = sys.argv[1]


class St:
    durable_execution_arn = "arn"
    fail_refresh = False

    def get_checkpoint_result(self, _id):
        return CHECKPOINT_NOT_FOUND

    def create_checkpoint(self, operation_update=None, is_sync=True):
        if operation_update is None and self.fail_refresh:
            raise BackgroundThreadError("Checkpoint creation failed", RuntimeError("api down"))

    def track_replay(self, operation_id=None):
        pass

    def is_replaying(self):
        return False


st = St()
entries = [0, 0]


def branch0(ctx):
    entries[0] += 1
    raise TimedSuspendExecution("parked on a timer", time.time() + 0.2)   # e.g. a wait the backend has not completed yet: no I/O before re-suspending


def branch1(ctx):
    time.sleep(1.0)                                  # user code still running when branch 0's timer fires
    if mode == "refresh":
        raise SuspendExecution("parked on a callback that is already STARTED in the history: no checkpoint needed")
    return "done"


if mode == "refresh":
    st.fail_refresh = True
else:
    # force the schedule: the submitting thread is descheduled between submit() and add_done_callback() (ExecutableWithState.run sits between them)
    orig_run = M.ExecutableWithState.run

    def slow_run(self, future):
        orig_run(self, future)
        if entries[0] >= 1 and threading.current_thread().name != "MainThread":
            time.sleep(0.05)
    M.ExecutableWithState.run = slow_run

ex = ParallelExecutor.from_callables([branch0, branch1], ParallelConfig(completion_config=CompletionConfig()))
ctx = DurableContext(state=st, execution_context=ExecutionContext("arn"), lambda_context=None, parent_id=None).create_child_context("par")
out = {}


def run():
    try:
        out["ret"] = ex.execute(st, ctx)
    except BaseException as e:  # noqa: BLE001
        out["exc"] = e


t = threading.Thread(target=run, daemon=True)
t.start()
t.join(8)
if t.is_alive():
    print(f"HANG: execute() has not returned after 8 s (mode={mode}, branch 0 entered {entries[0]}x)")
    sys.exit(1)
print("execute() ended:", {k: (type(v).__name__, str(v)[:80]) for k, v in out.items()})
sys.exit(0)
